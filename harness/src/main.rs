//! mpdverif — runtime monitors for the properties C01–C20 of elomatreb/mpd_client.
//! See /verif/DESIGN.md.

mod props;
mod refmodel;
mod sim;
mod util;

use std::time::{Duration, Instant};

use util::acc::Acc;
use util::json::J;
use util::{Cfg, Tier};

pub struct Meta {
    pub level: &'static str,
    pub rule: String,
    /// name of the `Acc::distinct` set that counts distinct non-trivial cases
    pub nontrivial_set: &'static str,
    pub assumptions: Vec<String>,
    pub exhaustive: Option<bool>,
    /// coverage floors: (counter or `distinct_<set>` key, minimum). Not reached => INCONCLUSIVE.
    pub floors: Vec<(String, u64)>,
    pub extra: Vec<(String, J)>,
}

pub trait Property: Sync {
    fn id(&self) -> &'static str;
    /// one-time preparation (self tests of the reference models); Err => INCONCLUSIVE
    fn selftest(&self) -> Result<(), String> {
        Ok(())
    }
    fn cases(&self, cfg: &Cfg) -> u64;
    fn run_case(&self, cfg: &Cfg, i: u64, acc: &mut Acc);
    /// extra stages after the parallel part (child processes, Miri)
    fn post(&self, _cfg: &Cfg, _acc: &mut Acc) {}
    fn meta(&self, cfg: &Cfg, acc: &Acc) -> Meta;
    /// run the cases in child processes (abort containment)
    fn sharded(&self) -> bool {
        false
    }
    fn hard_limit(&self, cfg: &Cfg) -> Duration {
        cfg.tier.pick(Duration::from_secs(600), Duration::from_secs(4 * 3600))
    }
}

fn usage() -> ! {
    eprintln!("usage: mpdverif --property Cxx [--tier quick|thorough] [--seed N] [--root /verif] [--replay file] [--threads N] [extra…]");
    std::process::exit(2)
}

fn main() {
    let args: Vec<String> = std::env::args().collect();
    let mut property = None;
    let mut tier = Tier::Quick;
    let mut seed: u64 = 1;
    let mut threads = std::thread::available_parallelism().map(|n| n.get()).unwrap_or(4).min(16);
    let mut root = "/verif".to_string();
    let mut replay = None;
    let mut extra = Vec::new();
    let mut i = 1;
    while i < args.len() {
        match args[i].as_str() {
            "--property" => {
                property = args.get(i + 1).cloned();
                i += 2;
            }
            "--tier" => {
                tier = match args.get(i + 1).map(|s| s.as_str()) {
                    Some("quick") => Tier::Quick,
                    Some("thorough") => Tier::Thorough,
                    _ => usage(),
                };
                i += 2;
            }
            "--seed" => {
                seed = args.get(i + 1).and_then(|s| s.parse().ok()).unwrap_or_else(|| usage());
                i += 2;
            }
            "--threads" => {
                threads = args.get(i + 1).and_then(|s| s.parse().ok()).unwrap_or_else(|| usage());
                i += 2;
            }
            "--root" => {
                root = args.get(i + 1).cloned().unwrap_or_else(|| usage());
                i += 2;
            }
            "--replay" => {
                replay = args.get(i + 1).cloned();
                i += 2;
            }
            _ => {
                extra.push(args[i].clone());
                i += 1;
            }
        }
    }
    let Some(property) = property else { usage() };
    let cfg = Cfg { property: property.clone(), tier, seed, threads, root, replay, extra, exe: args[0].clone() };
    util::panics::install_hook();

    // child modes are handled by the property modules themselves
    if let Some(code) = props::child_dispatch(&cfg) {
        std::process::exit(code);
    }

    let Some(prop) = props::lookup(&property) else {
        eprintln!("unknown property {}", property);
        std::process::exit(2);
    };
    std::process::exit(run_property(prop.as_ref(), &cfg));
}

fn run_property(prop: &dyn Property, cfg: &Cfg) -> i32 {
    let start = Instant::now();
    if let Err(e) = prop.selftest() {
        println!("INCONCLUSIVE: reference-model self-test failed: {}", e);
        return 2;
    }

    // replay of a single case
    if let Some(path) = &cfg.replay {
        let text = match std::fs::read_to_string(path) {
            Ok(t) => t,
            Err(e) => {
                println!("INCONCLUSIVE: cannot read replay file {}: {}", path, e);
                return 2;
            }
        };
        let j = match util::json::parse(&text) {
            Ok(j) => j,
            Err(e) => {
                println!("INCONCLUSIVE: cannot parse replay file: {}", e);
                return 2;
            }
        };
        let case = j.get("case").and_then(|c| c.as_i()).unwrap_or(0) as u64;
        let seed = j.get("seed").and_then(|c| c.as_i()).unwrap_or(cfg.seed as i128) as u64;
        let tier = match j.get("tier").and_then(|t| t.as_str()) {
            Some("thorough") => Tier::Thorough,
            _ => Tier::Quick,
        };
        let mut c2 = cfg.clone();
        c2.seed = seed;
        c2.tier = tier;
        let mut acc = Acc::new();
        acc.max_violations = 100;
        util::trace::scoped(case % 3 == 1, || prop.run_case(&c2, case, &mut acc));
        println!("replayed property={} seed={} tier={} case={}: {} violation(s)", prop.id(), seed, tier.name(), case, acc.violation_count);
        for v in &acc.violations {
            println!("  [{}] {}", v.sig.as_deref().unwrap_or("-"), v.summary);
            println!("{}", v.detail.render());
        }
        let findings = load_findings(&cfg.root, prop.id());
        let unlisted = acc.violations.iter().filter(|v| !v.sig.as_ref().map(|s| findings.contains(s)).unwrap_or(false)).count();
        if unlisted > 0 {
            println!("VIOLATION property={} replay={}", prop.id(), path);
            return 1;
        }
        return 0;
    }

    let n = prop.cases(cfg);
    if let Some(spec) = util::shard::shard_spec(cfg) {
        // child of a sharded run
        return util::shard::run_child(cfg, &spec, n, &|i, acc| prop.run_case(cfg, i, acc));
    }
    let mut acc = if prop.sharded() {
        util::shard::run_parent(cfg, cfg.threads as u64, &[], prop.hard_limit(cfg), None)
    } else {
        util::pool::run_cases(n, cfg.threads, prop.hard_limit(cfg), |i, acc| prop.run_case(cfg, i, acc)).acc
    };
    prop.post(cfg, &mut acc);
    let meta = prop.meta(cfg, &acc);
    let wall = start.elapsed().as_secs_f64();
    finish(prop.id(), cfg, &acc, &meta, wall)
}

pub fn load_findings(root: &str, id: &str) -> Vec<String> {
    // lines: finding: property=C06 sig=<sig> <text>
    let mut out = Vec::new();
    if let Ok(t) = std::fs::read_to_string(format!("{}/KNOWN_FINDINGS.txt", root)) {
        for line in t.lines() {
            let line = line.trim();
            if let Some(rest) = line.strip_prefix("finding:") {
                let mut prop = None;
                let mut sig = None;
                for tok in rest.split_whitespace() {
                    if let Some(p) = tok.strip_prefix("property=") {
                        prop = Some(p.to_string());
                    } else if let Some(s) = tok.strip_prefix("sig=") {
                        sig = Some(s.to_string());
                    }
                }
                if prop.as_deref() == Some(id) {
                    if let Some(s) = sig {
                        out.push(s);
                    }
                }
            }
        }
    }
    out
}

fn finding_text(root: &str, sig: &str) -> String {
    if let Ok(t) = std::fs::read_to_string(format!("{}/KNOWN_FINDINGS.txt", root)) {
        for line in t.lines() {
            if line.trim().starts_with("finding:") && line.contains(&format!("sig={}", sig)) {
                if let Some(p) = line.find(&format!("sig={}", sig)) {
                    return line[p..].to_string();
                }
            }
        }
    }
    sig.to_string()
}

fn finish(id: &str, cfg: &Cfg, acc: &Acc, meta: &Meta, wall: f64) -> i32 {
    let findings = load_findings(&cfg.root, id);
    let mut unlisted: Vec<&util::acc::Violation> = Vec::new();
    let mut known_sigs: Vec<String> = Vec::new();
    for v in &acc.violations {
        match &v.sig {
            Some(s) if findings.contains(s) => {
                if !known_sigs.contains(s) {
                    known_sigs.push(s.clone());
                }
            }
            _ => unlisted.push(v),
        }
    }
    // unclassified failures first: they are the ones that need attention
    unlisted.sort_by_key(|v| (v.sig.is_some(), v.case));
    // signature hits that were counted but whose stored examples were all truncated away
    for (s, _) in &acc.sig_hits {
        if findings.contains(s) && !known_sigs.contains(s) {
            known_sigs.push(s.clone());
        }
    }
    let unlisted_count: u64 = acc.violation_count - acc.sig_hits.iter().filter(|(s, _)| findings.contains(*s)).map(|(_, n)| *n).sum::<u64>();

    // evidence
    let evaluations = acc.get("evaluations");
    let distinct = acc.distinct_len(meta.nontrivial_set);
    let mut cov = J::obj()
        .set("evaluations", evaluations)
        .set("distinct_nontrivial", distinct)
        .set("rule", meta.rule.clone())
        .set("samples", J::Arr(acc.samples.iter().map(|(_, j)| j.clone()).collect()));
    if let Some(e) = meta.exhaustive {
        cov.put("exhaustive", e);
    }
    cov.put("observed", acc.counters_json());
    if !acc.sig_hits.is_empty() {
        let mut o = J::obj();
        for (k, v) in &acc.sig_hits {
            o.put(k, *v);
        }
        cov.put("finding_class_hits", o);
    }
    for (k, v) in &meta.extra {
        cov.put(k, v.clone());
    }
    for (k, v) in &acc.notes {
        cov.put(k, v.clone());
    }
    let ev = J::obj()
        .set("property_id", id)
        .set("tier", cfg.tier.name())
        .set("seed", cfg.seed)
        .set("level", meta.level)
        .set("coverage", cov)
        .set("assumptions", J::Arr(meta.assumptions.iter().map(|a| J::Str(a.clone())).collect()))
        .set("wall_s", (wall * 1000.0).round() / 1000.0)
        .set("violations", unlisted_count)
        .set("known_finding_hits", known_sigs.len() as u64)
        .set("inconclusive", J::Arr(acc.inconclusive.iter().map(|s| J::Str(s.clone())).collect()));
    let evdir = format!("{}/evidence", cfg.root);
    let _ = std::fs::create_dir_all(&evdir);
    let evpath = format!("{}/{}.json", evdir, id);
    if let Err(e) = std::fs::write(&evpath, ev.render() + "\n") {
        println!("INCONCLUSIVE: cannot write evidence file {}: {}", evpath, e);
        return 2;
    }

    println!(
        "property={} tier={} seed={} evaluations={} distinct_nontrivial={} violations={} wall_s={:.1}",
        id,
        cfg.tier.name(),
        cfg.seed,
        evaluations,
        distinct,
        unlisted_count,
        wall
    );
    for s in &known_sigs {
        println!("KNOWN-FINDING: property={} {}", id, finding_text(&cfg.root, s));
    }

    if !unlisted.is_empty() || unlisted_count > 0 {
        let rdir = format!("{}/replays", cfg.root);
        let _ = std::fs::create_dir_all(&rdir);
        let max_print = std::env::var("VERIF_MAX_REPORT").ok().and_then(|s| s.parse().ok()).unwrap_or(10usize);
        for (k, v) in unlisted.iter().enumerate().take(max_print) {
            let path = format!("{}/{}-{}-{}-{}.json", rdir, id, cfg.tier.name(), cfg.seed, k);
            let j = J::obj()
                .set("property", id)
                .set("seed", cfg.seed)
                .set("tier", cfg.tier.name())
                .set("case", v.case)
                .set("signature", v.sig.clone())
                .set("summary", v.summary.clone())
                .set("detail", v.detail.clone());
            let _ = std::fs::write(&path, j.render() + "\n");
            println!("VIOLATION property={} replay={}", id, path);
            println!("  {}", v.summary);
        }
        if unlisted.is_empty() {
            println!("VIOLATION property={} replay={}", id, evpath);
        }
        return 1;
    }

    if !acc.inconclusive.is_empty() {
        println!("INCONCLUSIVE: {}", acc.inconclusive.join("; "));
        return 2;
    }
    // coverage floors
    for (k, min) in &meta.floors {
        let have = if let Some(set) = k.strip_prefix("distinct_") { acc.distinct_len(set) } else { acc.get(k) };
        if have < *min {
            println!("INCONCLUSIVE: coverage floor not reached: {} = {} < {}", k, have, min);
            return 2;
        }
    }
    if distinct < 2 || evaluations < 1 {
        println!("INCONCLUSIVE: run observed too little (evaluations={}, distinct_nontrivial={})", evaluations, distinct);
        return 2;
    }
    0
}
