//! C07 — user-supplied strings can never add a command or change list framing.

use std::borrow::Cow;
use std::collections::hash_map::DefaultHasher;
use std::hash::{Hash, Hasher};
use std::time::Duration;

use bytes::{BufMut, BytesMut};
use mpd_client::commands::{self as cmds, Command as TypedCommand, SongId, SongPosition};
use mpd_client::filter::Filter;
use mpd_client::tag::Tag;
use mpd_protocol::command::{Argument, Command, CommandList};

use crate::refmodel::tokenizer::{split_lines, tokenize};
use crate::sim::capture::{AsyncCapture, SyncCapture};
use crate::util::acc::Acc;
use crate::util::json::J;
use crate::util::panics;
use crate::util::rng::{hash_bytes, mix, Rng};
use crate::util::Cfg;
use crate::{Meta, Property};

pub struct C07;

/// A user-defined renderer that appends arbitrary bytes.
struct Raw(Vec<u8>);
impl Argument for Raw {
    fn render(&self, buf: &mut BytesMut) {
        buf.put_slice(&self.0);
    }
}

/// Renders in two steps (a renderer is free to call put several times).
struct TwoStep(Vec<u8>, Vec<u8>);
impl Argument for TwoStep {
    fn render(&self, buf: &mut BytesMut) {
        buf.put_slice(&self.0);
        buf.put_slice(&self.1);
    }
}

fn must_reject_name(n: &str) -> bool {
    n.is_empty() || !n.bytes().all(|b| b.is_ascii_alphanumeric() || b == b'_') || matches!(n, "command_list_begin" | "command_list_ok_begin" | "command_list_end")
}

fn hash_of<T: Hash>(t: &T) -> u64 {
    let mut h = DefaultHasher::new();
    t.hash(&mut h);
    h.finish()
}

fn count_lf(b: &[u8]) -> usize {
    b.iter().filter(|&&c| c == b'\n').count()
}

struct Ck {
    sync: SyncCapture,
    asyn: AsyncCapture,
}

impl Ck {
    /// wire invariants of an accepted command
    fn accepted(&mut self, acc: &mut Acc, case: u64, c: &Command, what: &str) {
        acc.inc("accepted_commands_checked");
        let w = self.sync.send(c.clone());
        if count_lf(&w) != 1 || w.last() != Some(&b'\n') {
            acc.violation(case, None, format!("accepted command occupies {} lines on the wire ({}): {:?}", count_lf(&w), what, String::from_utf8_lossy(&w)), J::obj().set("wire", J::bytes(&w)).set("what", what));
        }
        let wa = self.asyn.send(c.clone());
        if wa != w {
            acc.violation(case, None, format!("async and blocking send differ ({})", what), J::obj().set("blocking", J::bytes(&w)).set("async", J::bytes(&wa)));
        }
    }

    fn list(&mut self, acc: &mut Acc, case: u64, cmds: &[Command]) {
        if cmds.is_empty() {
            return;
        }
        acc.inc("lists_rendered");
        let mut l = CommandList::new(cmds[0].clone());
        for c in &cmds[1..] {
            l.add(c.clone());
        }
        let w = self.sync.send_list(l);
        let (lines, rest) = split_lines(&w);
        let bad = |acc: &mut Acc, m: String| acc.violation(case, None, m, J::obj().set("wire", J::bytes(&w)));
        if !rest.is_empty() {
            bad(acc, "rendered list does not end with a line feed".into());
            return;
        }
        if cmds.len() == 1 {
            if lines.len() != 1 {
                bad(acc, format!("list of one command rendered as {} lines", lines.len()));
            }
            return;
        }
        if lines.len() != cmds.len() + 2 {
            bad(acc, format!("list of {} commands rendered as {} lines", cmds.len(), lines.len()));
            return;
        }
        if lines[0] != b"command_list_ok_begin" || lines[lines.len() - 1] != b"command_list_end" {
            bad(acc, "list framing lines are not exactly command_list_ok_begin / command_list_end".into());
        }
        for l in &lines[1..lines.len() - 1] {
            let first: &[u8] = match tokenize(l) {
                Ok((ref n, _)) => &n.clone(),
                Err(_) => l.split(|&b| b <= 0x20).next().unwrap_or(b""),
            };
            let first = first.to_vec();
            if matches!(&first[..], b"command_list_begin" | b"command_list_ok_begin" | b"command_list_end") {
                bad(acc, format!("inner line starts with a list framing word: {:?}", String::from_utf8_lossy(l)));
            }
        }
    }
}

/// Try one argument on a copy of `base`; check rejection/rollback/acceptance invariants.
fn try_arg<A: Argument>(ck: &mut Ck, acc: &mut Acc, case: u64, base: &mut Command, a: A, rendered_has_lf: bool, what: &str) -> bool {
    let before = base.clone();
    let hb = hash_of(&before);
    let wb = ck.sync.send(before.clone());
    acc.inc("arguments_tried");
    acc.inc("evaluations");
    match base.add_argument(a) {
        Ok(()) => {
            acc.inc("arguments_accepted");
            if rendered_has_lf {
                let w = ck.sync.send(base.clone());
                acc.violation(case, None, format!("argument whose rendered bytes contain a line feed was accepted ({}): wire {:?}", what, String::from_utf8_lossy(&w)), J::obj().set("wire", J::bytes(&w)).set("what", what));
            }
            ck.accepted(acc, case, base, what);
            true
        }
        Err(e) => {
            acc.inc("arguments_rejected");
            acc.inc("rollback_checks");
            let _ = format!("{} {:?}", e, e);
            let wa = ck.sync.send(base.clone());
            if *base != before || hash_of(base) != hb || wa != wb {
                acc.violation(
                    case,
                    None,
                    format!("a rejected argument changed the command ({}): before {:?} after {:?}", what, String::from_utf8_lossy(&wb), String::from_utf8_lossy(&wa)),
                    J::obj().set("before", J::bytes(&wb)).set("after", J::bytes(&wa)).set("eq", *base == before).set("hash_equal", hash_of(base) == hb),
                );
            }
            if !rendered_has_lf {
                // rejecting more than required is allowed by the property; only counted
                acc.inc("rejected_without_lf");
            }
            false
        }
    }
}

const LF_STRINGS: &[&str] = &["\n", "\nx", "x\n", "x\ny", "\r\n", "a b\nc d", "\"\n\"", "x\ncommand_list_end", "x\nkill", "\n\n", "é\n€", "tab\t\nnl"];

impl Property for C07 {
    fn id(&self) -> &'static str {
        "C07"
    }
    fn cases(&self, cfg: &Cfg) -> u64 {
        3 + cfg.tier.pick(3_000, 30_000)
    }
    fn run_case(&self, cfg: &Cfg, i: u64, acc: &mut Acc) {
        let mut ck = Ck { sync: SyncCapture::new(usize::MAX), asyn: AsyncCapture::new(5) };
        if i == 0 {
            // names: exhaustive over 1- and 2-byte strings over all 128 ASCII chars + 3 non-ASCII
            let mut alphabet: Vec<String> = (0u8..128).map(|b| (b as char).to_string()).collect();
            alphabet.extend(["é", "Ω", "٣"].iter().map(|s| s.to_string()));
            let mut names: Vec<String> = vec![String::new()];
            for a in &alphabet {
                names.push(a.clone());
                for b in &alphabet {
                    names.push(format!("{}{}", a, b));
                }
            }
            for n in [
                "command_list", "command_list_end", "command_list_ok_begin", "command_list_begin", "command_listx", "command_list_", "xcommand_list_begin", "Command_List_Begin", "COMMAND_LIST_END",
                "command_list_end ", " command_list_end", "command_list_end\n", "command_list_ok_begin\nstatus", "status\n", "status\nkill", "sta tus", "status\t", "status\"", "sta'tus", "a-b", "a.b", "a:b",
                "play1", "1play", "p_1", "command", "command_lis", "noidle", "idle", "kill",
            ] {
                names.push(n.to_string());
            }
            for n in names {
                acc.inc("names_tried");
                acc.inc("evaluations");
                let r = Command::build(&n);
                let must = must_reject_name(&n);
                if !n.bytes().all(|b| b.is_ascii_alphabetic() || b == b'_') || n.is_empty() {
                    acc.distinct("nontrivial", hash_bytes(n.as_bytes()));
                }
                // `new` must agree with `build` (panic <=> error)
                let panicked = panics::catch(|| Command::new(&n)).is_err();
                if panicked != r.is_err() {
                    acc.violation(i, None, format!("Command::new and Command::build disagree on {:?}", n), J::obj().set("name", J::bytes(n.as_bytes())));
                }
                match r {
                    Ok(c) => {
                        acc.inc("names_accepted");
                        if must {
                            let w = ck.sync.send(c.clone());
                            acc.violation(i, None, format!("command name {:?} must be rejected but was accepted; wire {:?}", n, String::from_utf8_lossy(&w)), J::obj().set("name", J::bytes(n.as_bytes())).set("wire", J::bytes(&w)));
                        }
                        ck.accepted(acc, i, &c, "name only");
                        ck.list(acc, i, &[Command::new("ping"), c.clone(), Command::new("ping")]);
                    }
                    Err(e) => {
                        acc.inc("names_rejected");
                        let _ = format!("{} {:?}", e, e);
                    }
                }
            }
            acc.inc("names_exhaustive_done");
            return;
        }
        if i == 1 {
            // line feeds through every Argument type
            let mut base = Command::new("cmd");
            base.add_argument("first").unwrap();
            for s in LF_STRINGS {
                acc.distinct("nontrivial", hash_bytes(s.as_bytes()));
                try_arg(&mut ck, acc, i, &mut base, *s, true, "&str with LF");
                try_arg(&mut ck, acc, i, &mut base, s.to_string(), true, "String with LF");
                try_arg(&mut ck, acc, i, &mut base, Cow::Borrowed(*s), true, "Cow::Borrowed with LF");
                try_arg(&mut ck, acc, i, &mut base, Cow::<str>::Owned(s.to_string()), true, "Cow::Owned with LF");
                try_arg(&mut ck, acc, i, &mut base, &s.to_string(), true, "&String with LF");
                try_arg(&mut ck, acc, i, &mut base, Raw(s.as_bytes().to_vec()), true, "user renderer with LF");
                try_arg(&mut ck, acc, i, &mut base, TwoStep(b"ok".to_vec(), s.as_bytes().to_vec()), true, "two-step user renderer with LF in the second part");
                try_arg(&mut ck, acc, i, &mut base, TwoStep(s.as_bytes().to_vec(), b"tail".to_vec()), true, "two-step user renderer with LF in the first part");
                // user renderers are free to emit bytes that are not UTF-8: before, after and around the line feed
                for bad in [&b"\xff"[..], b"caf\xe9", b"abc\xc3", b"\xed\xa0\x80", b"\0", b"\xc3\xa9\xff"] {
                    let mut v = bad.to_vec();
                    v.extend_from_slice(s.as_bytes());
                    try_arg(&mut ck, acc, i, &mut base, Raw(v.clone()), true, "user renderer: non-UTF-8 bytes, then the LF string");
                    let mut w = s.as_bytes().to_vec();
                    w.extend_from_slice(bad);
                    try_arg(&mut ck, acc, i, &mut base, Raw(w), true, "user renderer: the LF string, then non-UTF-8 bytes");
                    try_arg(&mut ck, acc, i, &mut base, TwoStep(v, bad.to_vec()), true, "two-step user renderer with non-UTF-8 bytes around the LF string");
                }
                // Filter values and Tag::Other with LF (hand-constructed)
                try_arg(&mut ck, acc, i, &mut base, Filter::tag(Tag::Artist, *s), true, "Filter value with LF");
                try_arg(&mut ck, acc, i, &mut base, Tag::Other((*s).into()), true, "Tag::Other with LF");
                // argument() must panic where add_argument errs
                let b2 = base.clone();
                if panics::catch(move || b2.argument(*s)).is_ok() {
                    acc.violation(i, None, format!("Command::argument accepted {:?}", s), J::Null);
                }
            }
            // types that cannot contain LF: accepted, one line
            try_arg(&mut ck, acc, i, &mut base, true, false, "bool");
            try_arg(&mut ck, acc, i, &mut base, 255u8, false, "u8");
            try_arg(&mut ck, acc, i, &mut base, u16::MAX, false, "u16");
            try_arg(&mut ck, acc, i, &mut base, u32::MAX, false, "u32");
            try_arg(&mut ck, acc, i, &mut base, u64::MAX, false, "u64");
            try_arg(&mut ck, acc, i, &mut base, usize::MAX, false, "usize");
            try_arg(&mut ck, acc, i, &mut base, Duration::from_millis(1500), false, "Duration");
            try_arg(&mut ck, acc, i, &mut base, SongId(7), false, "SongId");
            try_arg(&mut ck, acc, i, &mut base, SongPosition(7), false, "SongPosition");
            try_arg(&mut ck, acc, i, &mut base, Tag::Artist, false, "Tag");
            try_arg(&mut ck, acc, i, &mut base, Filter::tag(Tag::Artist, "x y"), false, "Filter");
            try_arg(&mut ck, acc, i, &mut base, Raw(b"raw bytes \xff".to_vec()), false, "user renderer");
            try_arg(&mut ck, acc, i, &mut base, Raw(b"\xff\xfe\0\r".to_vec()), false, "user renderer, not UTF-8, no LF");
            try_arg(&mut ck, acc, i, &mut base, "\r", false, "lone CR");
            return;
        }
        if i == 2 {
            // typed commands with LF in string parameters: command() must reject (panic) or stay on one line
            for s in LF_STRINGS {
                let s: &str = s;
                let mut typed = |name: &str, f: &dyn Fn() -> Command| {
                    acc.inc("typed_lf_cases");
                    acc.inc("evaluations");
                    match panics::catch(f) {
                        Err(_) => acc.inc("typed_lf_rejected_by_panic"),
                        Ok(c) => {
                            let w = ck.sync.send(c);
                            if count_lf(&w) != 1 {
                                acc.violation(i, None, format!("typed command {} with a line feed in a string parameter writes {} lines: {:?}", name, count_lf(&w), String::from_utf8_lossy(&w)), J::obj().set("wire", J::bytes(&w)));
                            }
                        }
                    }
                };
                typed("Update", &|| cmds::Update::new().uri(s).command());
                typed("Add", &|| cmds::Add::uri(s).command());
                typed("GetPlaylist", &|| cmds::GetPlaylist(s).command());
                typed("StickerSet", &|| cmds::StickerSet::new("u", "n", s).command());
                typed("SendChannelMessage", &|| cmds::SendChannelMessage::new("c", s).command());
                typed("Find", &|| cmds::Find::new(Filter::tag(Tag::Title, s)).command());
                typed("RenamePlaylist", &|| cmds::RenamePlaylist::new(s, "b").command());
                typed("AlbumArt", &|| cmds::AlbumArt::new(s).command());
            }
            return;
        }
        // random histories of accepted/rejected add_argument calls
        let mut r = Rng::keyed(&[cfg.seed, 7, i]);
        let mut c = Command::new(*r.pick(&["cmd", "find", "a_b", "x"]));
        let steps = r.range(1, 12);
        let mut rejected_then_accepted = false;
        let mut seen_reject = false;
        let mut hist = 0u64;
        for _ in 0..steps {
            let with_lf = r.chance(2, 5);
            let mut s = String::new();
            // mostly short; one argument in sixteen is 4-70 KB long (line lengths around the usual buffer sizes)
            let n = if r.chance(1, 16) { *r.pick(&[4060usize, 4080, 4096, 8200, 70_000]) + r.below(40) } else { r.below(8) };
            for _ in 0..n {
                s.push(*r.pick(&['a', ' ', '"', '\\', '\'', 'é', '\t', '\r', 'z', '0']));
            }
            if with_lf {
                let p = r.below(s.chars().count() + 1);
                let idx = s.char_indices().nth(p).map(|(i, _)| i).unwrap_or(s.len());
                s.insert(idx, '\n');
            }
            hist = mix(&[hist, hash_bytes(s.as_bytes())]);
            let ok = match r.below(5) {
                0 => try_arg(&mut ck, acc, i, &mut c, s.as_str(), with_lf, "history &str"),
                1 => try_arg(&mut ck, acc, i, &mut c, s.clone(), with_lf, "history String"),
                2 => try_arg(&mut ck, acc, i, &mut c, Cow::Borrowed(s.as_str()), with_lf, "history Cow"),
                3 => {
                    let mut v = if r.chance(1, 2) { vec![0xffu8, 0xc3] } else { Vec::new() };
                    v.extend_from_slice(s.as_bytes());
                    try_arg(&mut ck, acc, i, &mut c, Raw(v), with_lf, "history user renderer")
                }
                _ => try_arg(&mut ck, acc, i, &mut c, Filter::tag(Tag::Album, s.as_str()), with_lf, "history Filter"),
            };
            if !ok {
                seen_reject = true;
            } else if seen_reject {
                rejected_then_accepted = true;
            }
        }
        acc.inc("histories");
        if rejected_then_accepted {
            acc.distinct("nontrivial", hist);
        }
        // lists made of the built command
        let k = r.range(1, 6);
        let list: Vec<Command> = (0..k).map(|j| if j % 2 == 0 { c.clone() } else { Command::new("ping") }).collect();
        ck.list(acc, i, &list);
        if acc.want_sample() && rejected_then_accepted {
            let w = ck.sync.send(c.clone());
            acc.sample(i, J::obj().set("history_steps", steps).set("final_wire", J::bytes(&w)));
        }
    }
    fn meta(&self, _cfg: &Cfg, _acc: &Acc) -> Meta {
        Meta {
            level: "exploration",
            rule: "EXHAUSTIVE: all 1- and 2-character names over the 128 ASCII characters plus 3 non-ASCII letters/digits (17292 names) and 30 command_list*/whitespace/quote spellings: names that are empty, contain a character outside [A-Za-z0-9_] or equal a list framing word must be rejected, new/build must agree, accepted names occupy one line; line feeds at first/middle/last position, CR LF and injected second commands through &str/String/&String/Cow/Filter/Tag::Other and user-defined one- and two-step renderers must be rejected and leave the command ==, Hash- and wire-identical to a clone taken before; all built-in Argument types produce one line; typed commands with LF in string parameters; random histories of 1-12 accepted/rejected add_argument calls checked after every step; rendered lists: framing lines exact, N+2 lines, no inner line starting with a framing word; non-trivial = name with a character outside [A-Za-z_], an LF string, or a history with a rejection followed by an acceptance; distinct by name / string / history hash".into(),
            nontrivial_set: "nontrivial",
            assumptions: vec!["user renderers that delete bytes from the shared buffer are outside the property's notion of 'emit'".into(), "digits in command names may be accepted or rejected (the library rejects them)".into()],
            exhaustive: Some(true),
            floors: vec![("names_exhaustive_done".into(), 1), ("rollback_checks".into(), 100), ("arguments_accepted".into(), 100), ("lists_rendered".into(), 100), ("typed_lf_cases".into(), 50)],
            extra: vec![("exhaustive_scope".into(), J::Str("names of length <=2 over ASCII; LF positions x argument types; histories are sampled".into()))],
        }
    }
}
