//! C14 — song listings decode to the songs the server listed.

use std::collections::BTreeMap;
use std::time::Duration;

use mpd_client::commands::{self as c, Command as TypedCommand, SongId, SongPosition};
use mpd_client::filter::Filter;
use mpd_client::responses::{Song, SongInQueue};
use mpd_client::tag::Tag;

use super::c16::tag_name;
use super::typed::{self, canonical_tag, close, frame_of, gen_ms, gen_name, kv, ms_spell, ms_str, TIMESTAMPS};
use crate::util::acc::Acc;
use crate::util::json::J;
use crate::util::panics;
use crate::util::rng::{hash_bytes, Rng};
use crate::util::Cfg;
use crate::{Meta, Property};

pub struct C14;

#[derive(Clone, Debug, Default)]
pub struct ASong {
    pub url: String,
    pub duration_ms: Option<u64>,
    pub time_s: Option<u64>,
    pub time_first: bool,
    pub pos: Option<usize>,
    pub id: Option<u64>,
    pub prio: Option<u8>,
    pub range: Option<(u64, Option<u64>)>,
    pub format: Option<String>,
    pub last_modified: Option<usize>,
    /// tag lines in wire order (key as sent, value)
    pub tags: Vec<(String, String)>,
}

#[derive(Clone, Debug)]
pub enum Entry {
    Song(ASong),
    Directory(String, Option<usize>),
    Playlist(String, Option<usize>),
}

fn gen_url(r: &mut Rng) -> String {
    const U: &[&str] = &["a.mp3", "dir/sub dir/file name.flac", "http://example.com/stream?x=1&y=2", "Ünï/cödé €.ogg", "with: colon.mp3", "file", "directory", "playlist", " lead.mp3", "日本/曲.mp3", "x"];
    if r.chance(1, 2) {
        format!("{}/{}", gen_name(r), r.pick(U))
    } else {
        r.pick(U).to_string()
    }
}

pub fn gen_song(r: &mut Rng, in_queue: bool) -> ASong {
    let names = typed::tag_names();
    let mut s = ASong { url: gen_url(r), ..Default::default() };
    if r.chance(3, 4) {
        s.duration_ms = Some(gen_ms(r));
    }
    if r.chance(1, 2) {
        s.time_s = Some(match s.duration_ms {
            // MPD prints Time as the rounded duration; a different number makes "duration wins" observable
            Some(d) if r.chance(1, 2) => (d + 500) / 1000,
            _ => r.next_u64() % 100_000,
        });
        s.time_first = r.chance(1, 2);
    }
    if in_queue {
        s.pos = Some(*r.pick(&[0usize, 1, 2, 500, u32::MAX as usize, usize::MAX]));
        s.id = Some(*r.pick(&[0u64, 1, 77, u32::MAX as u64 + 1, u64::MAX]));
        if r.chance(1, 3) {
            s.prio = Some(*r.pick(&[0u8, 1, 128, 255]));
        }
        if r.chance(1, 4) {
            let from = gen_ms(r) % 1_000_000;
            s.range = Some((from, if r.chance(1, 2) { Some(from + gen_ms(r) % 1_000_000) } else { None }));
        }
    }
    if r.chance(1, 2) {
        s.format = Some(r.pick(&["44100:16:2", "48000:24:2", "*:*:*", "dsd64:2", "96000:f:6"]).to_string());
    }
    if r.chance(2, 3) {
        s.last_modified = Some(r.below(TIMESTAMPS.len()));
    }
    let ntags = match r.below(6) {
        0 => 0,
        1 => r.range(8, 20),
        _ => r.range(1, 6),
    };
    for _ in 0..ntags {
        let mut name = r.pick(&names).clone();
        match r.below(8) {
            0 => name = name.to_ascii_lowercase(),
            1 => name = name.to_ascii_uppercase(),
            _ => {}
        }
        let reps = if r.chance(1, 4) { r.range(2, 4) } else { 1 };
        for _ in 0..reps {
            s.tags.push((name.clone(), gen_name(r)));
        }
    }
    // occasionally interleave so that repetitions of one tag are not adjacent
    if r.chance(1, 3) {
        r.shuffle(&mut s.tags);
    }
    s
}

pub fn song_lines(s: &ASong, r: &mut Rng) -> Vec<(String, String)> {
    // `file` first; the attribute/tag lines in a random order that preserves the order of the tag lines
    let mut attrs: Vec<(String, String)> = Vec::new();
    if let Some(lm) = s.last_modified {
        attrs.push(kv("Last-Modified", TIMESTAMPS[lm].0));
    }
    if let Some(f) = &s.format {
        attrs.push(kv("Format", f));
    }
    if let Some(p) = s.pos {
        attrs.push(kv("Pos", p));
    }
    if let Some(i) = s.id {
        attrs.push(kv("Id", i));
    }
    if let Some(p) = s.prio {
        attrs.push(kv("Prio", p));
    }
    if let Some((a, b)) = s.range {
        // a quarter of the values in another decimal spelling of the same number (`2.5`, `2`, `2.500000`)
        let mut sp = |v: u64| if r.chance(1, 4) { ms_spell(v, r.next_u64()) } else { ms_str(v) };
        let a_s = sp(a);
        attrs.push(kv("Range", format!("{}-{}", a_s, b.map(|b| sp(b)).unwrap_or_default())));
    }
    let mut timing: Vec<(String, String)> = Vec::new();
    if let Some(t) = s.time_s {
        timing.push(kv("Time", t));
    }
    if let Some(d) = s.duration_ms {
        timing.push(kv("duration", if r.chance(1, 4) { ms_spell(d, r.next_u64()) } else { ms_str(d) }));
    }
    if !s.time_first {
        timing.reverse();
    }
    // merge three ordered streams randomly: attrs (shuffled), timing (ordered), tags (ordered)
    r.shuffle(&mut attrs);
    let mut streams: Vec<std::collections::VecDeque<(String, String)>> = vec![attrs.into(), timing.into(), s.tags.clone().into()];
    let mut out = vec![kv("file", &s.url)];
    loop {
        let live: Vec<usize> = (0..streams.len()).filter(|&k| !streams[k].is_empty()).collect();
        if live.is_empty() {
            break;
        }
        let k = *r.pick(&live);
        out.push(streams[k].pop_front().unwrap());
    }
    out
}

pub fn gen_listing(r: &mut Rng, in_queue: bool, max: usize) -> Vec<Entry> {
    let n = match r.below(8) {
        0 => 0,
        1 => r.range(20, max.max(20)),
        _ => r.range(1, 6),
    };
    let mut out = Vec::new();
    for _ in 0..n {
        if !in_queue && r.chance(1, 4) {
            let lm = if r.chance(1, 2) { Some(r.below(TIMESTAMPS.len())) } else { None };
            if r.chance(1, 2) {
                out.push(Entry::Directory(gen_name(r), lm));
            } else {
                out.push(Entry::Playlist(gen_name(r), lm));
            }
        } else {
            out.push(Entry::Song(gen_song(r, in_queue)));
        }
    }
    out
}

pub fn listing_lines(l: &[Entry], r: &mut Rng) -> Vec<(String, String)> {
    let mut f = Vec::new();
    for e in l {
        match e {
            Entry::Song(s) => f.extend(song_lines(s, r)),
            Entry::Directory(n, lm) => {
                f.push(kv("directory", n));
                if let Some(lm) = lm {
                    f.push(kv("Last-Modified", TIMESTAMPS[*lm].0));
                }
            }
            Entry::Playlist(n, lm) => {
                f.push(kv("playlist", n));
                if let Some(lm) = lm {
                    f.push(kv("Last-Modified", TIMESTAMPS[*lm].0));
                }
            }
        }
    }
    f
}

fn check_song(a: &ASong, s: &Song) -> Result<(), String> {
    if s.url != a.url {
        return Err(format!("url {:?}, server sent {:?}", s.url, a.url));
    }
    if s.file_path() != std::path::Path::new(&a.url) {
        return Err("file_path() differs from the url".into());
    }
    // duration: from `duration`, else from `Time`
    let want_ms = a.duration_ms.or(a.time_s.map(|t| t * 1000));
    match (s.duration, want_ms) {
        (None, None) => {}
        (Some(d), Some(ms)) if close(d, ms) => {}
        (g, w) => return Err(format!("duration {:?}, server sent {:?} ms (duration field {:?}, Time field {:?})", g, w, a.duration_ms, a.time_s)),
    }
    if s.format != a.format {
        return Err(format!("format {:?}, server sent {:?}", s.format, a.format));
    }
    match (&s.last_modified, a.last_modified) {
        (None, None) => {}
        (Some(t), Some(k)) if t.raw() == TIMESTAMPS[k].0 => {
            #[cfg(feature = "chrono")]
            if t.chrono_datetime().timestamp() != TIMESTAMPS[k].1 {
                return Err(format!("Last-Modified {} decoded as instant {}", TIMESTAMPS[k].0, t.chrono_datetime().timestamp()));
            }
        }
        (g, w) => return Err(format!("last_modified {:?}, server sent {:?}", g.as_ref().map(|t| t.raw().to_string()), w.map(|k| TIMESTAMPS[k].0))),
    }
    // tags: per tag (canonical protocol name), the values in line order
    let mut want: BTreeMap<String, Vec<String>> = BTreeMap::new();
    for (k, v) in &a.tags {
        want.entry(canonical_tag(k)).or_default().push(v.clone());
    }
    let mut got: BTreeMap<String, Vec<String>> = BTreeMap::new();
    for (t, vs) in &s.tags {
        if got.insert(tag_name(t), vs.clone()).is_some() {
            return Err(format!("two map entries for tag {}", tag_name(t)));
        }
    }
    if got != want {
        return Err(format!("tags {:?}, server sent {:?}", got, want));
    }
    // convenience accessors agree with the map
    let first = |name: &str| want.get(name).and_then(|v| v.first()).map(|s| s.as_str());
    if s.album() != first("Album") || s.title() != first("Title") {
        return Err("album()/title() disagree with the tag lines".into());
    }
    let empty: Vec<String> = Vec::new();
    if s.artists() != want.get("Artist").unwrap_or(&empty).as_slice() || s.album_artists() != want.get("AlbumArtist").unwrap_or(&empty).as_slice() {
        return Err("artists()/album_artists() disagree with the tag lines".into());
    }
    let num = |name: &str| first(name).and_then(|v| v.parse::<u64>().ok()).unwrap_or(0);
    if s.number() != (num("Disc"), num("Track")) {
        return Err("number() disagrees with Disc/Track".into());
    }
    Ok(())
}

fn check_queue_song(a: &ASong, s: &SongInQueue) -> Result<(), String> {
    check_song(a, &s.song)?;
    if s.position != SongPosition(a.pos.unwrap_or(0)) || s.id != SongId(a.id.unwrap_or(0)) || s.priority != a.prio.unwrap_or(0) {
        return Err(format!("Pos/Id/Prio {:?}/{:?}/{}, server sent {:?}/{:?}/{:?}", s.position, s.id, s.priority, a.pos, a.id, a.prio));
    }
    match (s.range, a.range) {
        (None, None) => {}
        (Some(g), Some((from, to))) => {
            let to_ok = match (g.to, to) {
                (None, None) => true,
                (Some(d), Some(ms)) => close(d, ms),
                _ => false,
            };
            if !close(g.from, from) || !to_ok {
                return Err(format!("Range {:?}, server sent {:?}", g, a.range));
            }
        }
        (g, w) => return Err(format!("Range {:?}, server sent {:?}", g, w)),
    }
    Ok(())
}

fn songs_of(l: &[Entry]) -> Vec<&ASong> {
    l.iter().filter_map(|e| if let Entry::Song(s) = e { Some(s) } else { None }).collect()
}

fn lines_json(f: &[(String, String)]) -> J {
    J::obj().set("listing", J::Arr(f.iter().take(120).map(|(k, v)| J::Str(format!("{}: {}", k, v))).collect()))
}

fn render_abstract(a: &ASong, in_queue: bool) -> String {
    let mut tags: BTreeMap<String, Vec<String>> = BTreeMap::new();
    for (k, v) in &a.tags {
        tags.entry(canonical_tag(k)).or_default().push(v.clone());
    }
    let mut tags: Vec<(String, Vec<String>)> = tags.into_iter().collect();
    let song = crate::sim::listing::render_parts(&a.url, a.duration_ms.or(a.time_s.map(|t| t * 1000)), a.format.as_deref(), a.last_modified.map(|k| TIMESTAMPS[k].0), &mut tags);
    if in_queue {
        format!("pos={}|id={}|prio={}|range={:?}|{}", a.pos.unwrap_or(0), a.id.unwrap_or(0), a.prio.unwrap_or(0), a.range, song)
    } else {
        song
    }
}

impl C14 {
    /// The same decoding observed through the real client: the listing is the reply to a typed command issued
    /// right after a command list that failed part-way (reply chopped into reads), inside the re-idle window,
    /// with another caller and notifications around.
    fn session_case(&self, cfg: &Cfg, i: u64, acc: &mut Acc) {
        use crate::sim::analysis::Analysis;
        use crate::sim::scenario::ms;
        use crate::sim::session::{Req, Scenario, Step};
        use crate::sim::world::{CallResult, SegPolicy};
        let mut r = Rng::keyed(&[cfg.seed, 0x14c, i]);
        let which = (i / 8 % 6) as usize;
        let in_queue = which < 3;
        let mut listing = gen_listing(&mut r, in_queue, 12);
        listing.truncate(if which == 2 { 1 } else { 12 });
        let lines = listing_lines(&listing, &mut r);
        let want: Vec<String> = songs_of(&listing).iter().map(|s| render_abstract(s, in_queue)).collect();
        let mut sc = Scenario::new("typed-listing", crate::util::rng::mix(&[cfg.seed, 0x14c, i]));
        sc.world.listing = Some(lines.clone());
        sc.world.seg = vec![r.pick(&[SegPolicy::PerLine, SegPolicy::Random(6), SegPolicy::PerByte, SegPolicy::Whole]).clone()];
        sc.world.chunk_delay = vec![ms(r.below(3) as u64)];
        sc.world.read_cap = *r.pick(&[7usize, 64, usize::MAX]);
        let fail = Req::RawList { n: 3 + r.below(3), fail_at: Some((1 + r.below(2), *r.pick(&[50u64, 1050]))), shape: 2 };
        sc.callers.push((ms(20), vec![Step::Do(fail), Step::Do(Req::TypedListing { which }), Step::Think(sess_d() * 2), Step::Do(Req::TypedListing { which }), Step::Do(Req::Raw { shape: 1 })]));
        sc.callers.push((ms(20 + r.below(3) as u64), vec![Step::Do(Req::Raw { shape: r.below(7) as u64 }), Step::Do(Req::TypedListing { which })]));
        if r.chance(1, 2) {
            sc.notifications = vec![(ms(22), vec!["playlist".into()]), (ms(40), vec!["player".into()])];
        }
        let out = crate::sim::session::run_session(&sc);
        acc.inc("evaluations");
        acc.inc("listings_through_client_sessions");
        if !super::sess::common_faultfree(acc, i, &sc, &out) {
            return;
        }
        for h in &out.hung {
            acc.violation(i, None, format!("{} never completed", h), super::sess::detail(&sc, &out));
            return;
        }
        let a = Analysis::new(&out);
        super::c01::check(acc, i, &sc, &out, &a, true);
        let mut seen = 0;
        for cv in a.calls() {
            if !cv.desc.starts_with("TypedListing") {
                continue;
            }
            seen += 1;
            match cv.end.as_ref().map(|e| &e.2) {
                Some(CallResult::Typed(got)) if *got == want => acc.count("songs_compared", want.len() as u64),
                other => {
                    let k = if let Some(CallResult::Typed(got)) = other { got.iter().zip(want.iter()).position(|(x, y)| x != y).unwrap_or(got.len().min(want.len())) } else { 0 };
                    acc.violation(
                        i,
                        None,
                        format!(
                            "listing command {} through the client (call c{}#{}) decoded {} but the server listed {} songs; first difference at song {}: got {:?} want {:?}",
                            which,
                            cv.call.caller,
                            cv.call.seq,
                            other.map(|o| o.short()).unwrap_or_default(),
                            want.len(),
                            k,
                            if let Some(CallResult::Typed(got)) = other { got.get(k).cloned() } else { None },
                            want.get(k)
                        ),
                        super::sess::detail(&sc, &out).set("listing", J::Arr(lines.iter().take(60).map(|(k, v)| J::Str(format!("{}: {}", k, v))).collect())),
                    );
                    return;
                }
            }
        }
        if seen != 3 {
            acc.violation(i, None, format!("expected 3 listing calls, saw {}", seen), super::sess::detail(&sc, &out));
        }
        if want.len() >= 2 {
            acc.distinct("nontrivial", hash_bytes(format!("session{:?}", lines).as_bytes()));
        }
    }
}

fn sess_d() -> Duration {
    crate::sim::session::reidle_delay()
}

impl Property for C14 {
    fn id(&self) -> &'static str {
        "C14"
    }
    fn cases(&self, cfg: &Cfg) -> u64 {
        cfg.tier.pick(12_000, 150_000)
    }
    fn run_case(&self, cfg: &Cfg, i: u64, acc: &mut Acc) {
        let mut r = Rng::keyed(&[cfg.seed, 14, i]);
        if cfg!(feature = "chrono") {
            acc.inc("evaluations_chrono_build");
        }
        if i % 8 == 7 {
            self.session_case(cfg, i, acc);
            return;
        }
        let which = i % 6;
        let in_queue = which < 3;
        let mut listing = gen_listing(&mut r, in_queue, 60);
        if which == 2 {
            // currentsong: 0 or 1 song
            listing.truncate(1);
        }
        let lines = listing_lines(&listing, &mut r);
        let want = songs_of(&listing);
        acc.inc("evaluations");
        acc.inc("listings");
        acc.count("songs_sent", want.len() as u64);
        acc.count("directory_or_playlist_entries", (listing.len() - want.len()) as u64);
        for s in &want {
            if s.time_s.is_some() && s.duration_ms.is_some() {
                acc.inc(if s.time_first { "songs_time_before_duration" } else { "songs_duration_before_time" });
            }
            if s.time_s.is_some() && s.duration_ms.is_none() {
                acc.inc("songs_time_only");
            }
        }
        if want.len() >= 2 || listing.len() > want.len() {
            acc.distinct("nontrivial", hash_bytes(format!("{:?}", lines).as_bytes()));
        }
        let frame = match frame_of(&lines, None) {
            Ok(f) => f,
            Err(e) => {
                acc.violation(i, None, format!("well-formed listing not parsed by the protocol layer: {}", e), lines_json(&lines));
                return;
            }
        };
        let name = ["Queue", "QueueRange", "CurrentSong", "Find", "GetPlaylist", "ListAllIn"][which as usize];
        let res: Result<Result<(), String>, panics::Panicked> = panics::catch(|| {
            let cmp_q = |got: Vec<SongInQueue>| -> Result<(), String> {
                if got.len() != want.len() {
                    return Err(format!("{} songs decoded, {} file entries sent", got.len(), want.len()));
                }
                for (k, (g, w)) in got.iter().zip(want.iter()).enumerate() {
                    check_queue_song(w, g).map_err(|e| format!("song {}: {}", k, e))?;
                }
                Ok(())
            };
            let cmp_s = |got: Vec<Song>| -> Result<(), String> {
                if got.len() != want.len() {
                    return Err(format!("{} songs decoded, {} file entries sent", got.len(), want.len()));
                }
                for (k, (g, w)) in got.iter().zip(want.iter()).enumerate() {
                    check_song(w, g).map_err(|e| format!("song {}: {}", k, e))?;
                }
                Ok(())
            };
            match which {
                0 => cmp_q(c::Queue.response(frame).map_err(|e| format!("rejected: {}", e))?),
                1 => cmp_q(c::Queue::range(SongPosition(0)..).response(frame).map_err(|e| format!("rejected: {}", e))?),
                2 => cmp_q(c::CurrentSong.response(frame).map_err(|e| format!("rejected: {}", e))?.into_iter().collect()),
                3 => cmp_s(c::Find::new(Filter::tag(Tag::Artist, "x")).response(frame).map_err(|e| format!("rejected: {}", e))?),
                4 => cmp_s(c::GetPlaylist("p").response(frame).map_err(|e| format!("rejected: {}", e))?),
                _ => cmp_s(c::ListAllIn::root().response(frame).map_err(|e| format!("rejected: {}", e))?),
            }
        });
        match res {
            Ok(Ok(())) => {
                acc.inc("listings_ok");
                acc.count("songs_compared", want.len() as u64);
                if acc.want_sample() && want.len() >= 2 && lines.len() < 40 {
                    acc.sample(i, lines_json(&lines).set("command", name).set("songs", want.len()));
                }
            }
            Ok(Err(m)) => acc.violation(i, None, format!("{}: {}", name, m), lines_json(&lines).set("command", name)),
            Err(p) => acc.violation(i, None, format!("{}: conversion panicked: {}", name, p.0), lines_json(&lines).set("command", name)),
        }
    }
    fn post(&self, cfg: &Cfg, acc: &mut Acc) {
        typed::chrono_stage(cfg, acc, self.hard_limit(cfg));
    }
    fn meta(&self, _cfg: &Cfg, _acc: &Acc) -> Meta {
        Meta {
            level: "exploration",
            rule: "abstract listings (0-60 entries: songs with any subset/order of duration, Time (before, after or without duration), Pos/Id/Prio/Range, Format, Last-Modified and 0-20 tag lines over ~100 tag names (31 documented; unknown ones incl. one with a dash, one of 32 and one of 83 characters and 64 names that tagging tools use but MPD does not, e.g. Year, TrackNumber, Description) in canonical/lower/upper case with 1-4 repetitions, adjacent or interleaved; directory and playlist entries with and without Last-Modified at any position incl. several in a row; URLs with blanks, ': ', non-ASCII and the words file/directory/playlist) are encoded, parsed by the real protocol layer and decoded by Queue, QueueRange, CurrentSong, Find, GetPlaylist and ListAllIn; compared with the reference decoding of the ABSTRACT listing (one song per file entry in order; url, duration from duration else Time, Pos/Id/Prio/Range, format, last-modified raw (+ instant with chrono), per-tag values in line order) and with the convenience accessors; default and chrono build; every 8th case runs the listing command through the real client in a session (reply chopped into reads, issued right after a command list that failed part-way and again after the re-idle window, a second caller and notifications around); non-trivial = listing with >=2 songs or a non-song entry; distinct by listing lines".into(),
            nontrivial_set: "nontrivial",
            assumptions: vec![
                "scalar attributes are not repeated within one song and URLs are non-empty (neither occurs in MPD output; the empty URL is the builder's own 'no song' sentinel)".into(),
                "tag names compare by canonical protocol name (known names case-insensitively, as the crate documents)".into(),
                "durations are sent with millisecond precision, three quarters as MPD prints them (`S.mmm`), one quarter in another decimal spelling of the same number (trailing zeros trimmed, two or six decimals, bare integer), and compared within 1 microsecond".into(),
            ],
            exhaustive: None,
            floors: vec![
                ("listings_ok".into(), 500),
                ("directory_or_playlist_entries".into(), 100),
                ("songs_time_before_duration".into(), 20),
                ("songs_duration_before_time".into(), 20),
                ("songs_time_only".into(), 20),
                ("evaluations_chrono_build".into(), 1),
                ("listings_through_client_sessions".into(), 100),
            ],
            extra: vec![],
        }
    }
}
