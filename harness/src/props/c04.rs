//! C04 — subsystem-change notifications are delivered exactly once and in order.

use super::sess::{self, Plan};
use crate::sim::analysis::Analysis;
use crate::sim::session::{Outcome, Scenario};
use crate::sim::world::{EvKind, ReplyKind, SegPolicy};
use crate::util::acc::Acc;
use crate::util::json::J;
use crate::util::Cfg;
use crate::{Meta, Property};

pub struct C04;

/// Oracle over one session: the event sequence must equal the concatenation of the `changed:`
/// lines of all idle/noidle replies that were completely delivered (prefix relation for the rest).
pub fn check(acc: &mut Acc, case: u64, sc: &Scenario, out: &Outcome, a: &Analysis<'_>, fault_free: bool) -> Option<String> {
    if !sc.keep_events {
        return None;
    }
    let total = a.total_delivered();
    let mut must: Vec<String> = Vec::new(); // lines of completely delivered replies
    let mut may: Vec<String> = Vec::new(); // lines of all replies written (delivered or not)
    for r in &a.replies {
        if matches!(r.kind, ReplyKind::Idle | ReplyKind::Noidle) {
            may.extend(r.changed.iter().cloned());
            if r.end <= total {
                must.extend(r.changed.iter().cloned());
                acc.count("changed_lines_delivered", r.changed.len() as u64);
                if r.changed.len() >= 2 {
                    acc.inc("replies_with_2plus_changed_lines");
                }
            }
        }
    }
    let events: Vec<String> = a.log().iter().filter_map(|e| if let EvKind::EventChange(n) = &e.kind { Some(n.clone()) } else { None }).collect();
    acc.count("events_received", events.len() as u64);
    let fail = |acc: &mut Acc, msg: String| {
        let d = sess::detail(sc, out).set("changed_lines_in_delivered_replies", must.clone()).set("events_received", events.clone());
        acc.violation(case, None, msg.clone(), d);
        Some(msg)
    };
    // no invented / reordered / duplicated event: events must be a prefix of everything reported
    if !(events.len() <= may.len() && events[..] == may[..events.len()]) {
        let k = events.iter().zip(may.iter()).position(|(x, y)| x != y).unwrap_or(events.len().min(may.len()));
        return fail(
            acc,
            format!(
                "event {} is {:?} but the {}th change the server reported is {:?} (events {:?} vs reported {:?})",
                k,
                events.get(k),
                k,
                may.get(k),
                &events[..events.len().min(12)],
                &may[..may.len().min(12)]
            ),
        );
    }
    // exactly once: every line of every completely delivered reply must have become an event
    if fault_free && events.len() < must.len() {
        return fail(
            acc,
            format!("{} change(s) reported in completely delivered idle/noidle replies, only {} event(s) received; first missing: {:?} (events {:?} vs reported {:?})", must.len(), events.len(), must.get(events.len()), &events[..events.len().min(12)], &must[..must.len().min(12)]),
        );
    }
    None
}

impl Property for C04 {
    fn id(&self) -> &'static str {
        "C04"
    }
    fn cases(&self, cfg: &Cfg) -> u64 {
        Plan::for_tier(cfg.tier, 3_000, 300_000).cases() + cfg.tier.pick(180, 5_400)
    }
    fn run_case(&self, cfg: &Cfg, i: u64, acc: &mut Acc) {
        let plan = Plan::for_tier(cfg.tier, 3_000, 300_000);
        if i >= plan.cases() {
            // sessions that END in a transport fault: whatever the client completely read before the end must still
            // have been delivered (a failing write of the re-arming idle, a read error after the reply, ...)
            let k = i - plan.cases();
            let mut sc = super::c08::base_script([0, 6, 13][(k % 3) as usize], k / 3 % 3);
            sc.notifications.push((std::time::Duration::from_millis(40), vec!["database".into(), "update".into(), "frobnicator".into()]));
            sc.notifications.sort_by_key(|(t, _)| *t);
            sc.world.fault = if k / 9 % 2 == 0 {
                crate::sim::world::Fault::WriteErrFrom((1 + k / 18 % 6) as usize)
            } else {
                crate::sim::world::Fault::ReadErrAfter(sc.world.greeting.len() as u64 + crate::util::rng::mix(&[cfg.seed, k]) % 120)
            };
            if k / 9 % 3 == 2 {
                // a transient read error (Interrupted) somewhere inside the idle replies of a session WITHOUT callers:
                // the client may give up (events = a prefix) or carry on (events = everything), but it must not lose
                // the lines read before the error and deliver the rest
                sc.callers.clear();
                sc.drop_handles_at = None;
                sc.notifications = vec![
                    (std::time::Duration::from_millis(10), vec!["player".into(), "mixer".into(), "zone_b".into()]),
                    (std::time::Duration::from_millis(30), vec!["database".into(), "update".into(), "frobnicator".into(), "output".into()]),
                    (std::time::Duration::from_millis(50), vec!["sticker".into()]),
                ];
                sc.world.idle_seg = vec![[SegPolicy::PerLine, SegPolicy::PerByte, SegPolicy::Random(3), SegPolicy::Whole][(k / 27 % 4) as usize].clone()];
                sc.world.idle_chunk_delay = vec![std::time::Duration::from_millis(k / 108 % 2)];
                sc.world.fault = crate::sim::world::Fault::ReadInterruptedOnceAfter(sc.world.greeting.len() as u64 + crate::util::rng::mix(&[cfg.seed, k, 7]) % 130);
                acc.inc("sessions_with_one_interrupted_read_inside_idle_replies");
            }
            let out = sess::run(&sc);
            acc.inc("evaluations");
            acc.inc("sessions_ending_in_a_fault");
            for p in &out.panics {
                acc.violation(i, None, format!("panic: {}", p), sess::detail(&sc, &out));
                return;
            }
            if !out.fault_fired || !matches!(out.connect, Some(Ok(_))) {
                return;
            }
            let a = Analysis::new(&out);
            acc.inc("fault_sessions_events_checked");
            check(acc, i, &sc, &out, &a, true);
            return;
        }
        let mut sc = plan.scenario(cfg, i);
        // denser notification schedules for this property
        if sc.name == "random" && i % 2 == 0 {
            let extra: Vec<(std::time::Duration, Vec<String>)> = sc.notifications.iter().map(|(t, n)| (*t + std::time::Duration::from_millis(3), n.clone())).collect();
            sc.notifications.extend(extra);
            sc.notifications.sort_by_key(|(t, _)| *t);
        }
        let out = sess::run(&sc);
        acc.inc("evaluations");
        acc.inc("sessions");
        if !sess::common_faultfree(acc, i, &sc, &out) {
            return;
        }
        let a = Analysis::new(&out);
        let cov = sess::cover(acc, &a);
        if cov.overlap || cov.p8_multi_changed_reply {
            acc.distinct("nontrivial", a.signature());
        }
        for h in &out.hung {
            acc.violation(i, None, format!("{} never completed in a fault-free session", h), sess::detail(&sc, &out));
        }
        let mut failed = check(acc, i, &sc, &out, &a, true).is_some();
        // a fault-free session reaches a quiescent end at which the transport has delivered everything the server
        // wrote: whatever was reported must have arrived by then (a client that gave up on valid input stops reading,
        // so its missing events would not count as "completely delivered" above)
        if !failed && sc.keep_events && sc.epilogue && out.hung.is_empty() {
            // (with an unpolled receiver the driver does not wait for the final probe notification to arrive)
            let reported: usize = a.replies.iter().filter(|r| matches!(r.kind, ReplyKind::Idle | ReplyKind::Noidle) && !(sc.events_lazy && r.changed.iter().any(|c| c == "epilogue_probe"))).map(|r| r.changed.len()).sum();
            let events = a.log().iter().filter(|e| matches!(e.kind, EvKind::EventChange(_))).count();
            let closing = a.log().iter().find_map(|e| if let EvKind::EventClosed(c) = &e.kind { Some(c.clone()) } else { None });
            if events < reported || closing.is_some() {
                failed = true;
                acc.violation(
                    i,
                    None,
                    format!("fault-free session: the server reported {} change(s) in idle/noidle replies, {} event(s) arrived{} (the client stopped reading {} bytes before the end of the server's output)", reported, events, closing.map(|c| format!(", closing event {}", c)).unwrap_or_default(), out.s2c_len.saturating_sub(a.total_delivered())),
                    sess::detail(&sc, &out),
                );
            }
        }
        if !failed && acc.want_sample() && cov.p8_multi_changed_reply && out.log.len() < 70 {
            acc.sample(i, J::obj().set("scenario", sc.name.clone()).set("log", J::Arr(out.render_log(70).into_iter().map(J::Str).collect())));
        }
    }
    fn meta(&self, cfg: &Cfg, _acc: &Acc) -> Meta {
        let mut floors = sess::coverage_floors(cfg.tier);
        floors.push(("replies_with_2plus_changed_lines".into(), 20));
        floors.push(("events_received".into(), 1000));
        floors.push(("fault_sessions_events_checked".into(), 50));
        Meta {
            level: "exploration",
            rule: "same session engine and scenarios as C05 with denser notification schedules (1-6 changes per reply over the 14 documented names, unknown names incl. case variants and a 230-byte name, duplicates under list semantics, changes while a request is in flight, inside the re-idle window, while noidle is in transit, idle replies chopped per line / per byte with delays so that requests arrive between and inside `changed:` lines); oracle: the sequence of SubsystemChange events (as_str) from ConnectionEvents::next must equal the concatenation of the `changed:` lines of all idle/noidle replies the simulated server wrote and the transport completely delivered, checked at the quiescent end of the session (after a probe notification); plus sessions that end in a transport fault (failing write from the n-th write call on, read error after k bytes, and - in sessions without callers - ONE read failing with ErrorKind::Interrupted at a random offset inside chopped idle replies, after which the stream continues: the client may stop or carry on but must not deliver later changes of a reply whose earlier lines it lost) over notification-heavy scripts, where every change of a reply the client completely read must still arrive; non-trivial = session with overlap (P1,P2,P6,P7,P9,P12) or a reply with >=2 changed lines; distinct by interleaving signature".into(),
            nontrivial_set: "nontrivial",
            assumptions: vec![
                "a reply may carry duplicates or unknown names (legal server output for the property's quantifier)".into(),
                "simulated server as in C05".into(),
            ],
            exhaustive: None,
            floors,
            extra: vec![],
        }
    }
}
