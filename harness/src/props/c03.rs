//! C03 — well-formed server output is decoded exactly (reference encoder vs real decoder).

use crate::refmodel::gen;
use crate::refmodel::wire::{encode_session, AResponse, Form, Item};
use crate::sim::wirerun::{run, Flavour, RunSpec, Seg, StreamEnd, GREETING};
use crate::util::acc::Acc;
use crate::util::json::J;
use crate::util::rng::{hash_bytes, mix, Rng};
use crate::util::Cfg;
use crate::{Meta, Property};

pub struct C03;

fn features(acc: &mut Acc, s: &[AResponse]) {
    let mut prev_binary = false;
    let mut prev_error = false;
    for r in s {
        if prev_binary {
            acc.inc("responses_after_binary");
        }
        if prev_error {
            acc.inc("responses_after_error");
        }
        prev_binary = r.frames.iter().any(|f| f.binary.is_some());
        prev_error = r.error.is_some();
        if r.form == Form::List {
            acc.inc("list_form");
            if r.error.is_some() {
                acc.inc("list_with_error");
            }
        }
        if r.error.is_some() {
            acc.inc("errors");
            if r.partial.is_some() {
                acc.inc("errors_after_partial_output");
            }
        }
        for f in &r.frames {
            if let Some((_, b)) = &f.binary {
                acc.inc("binary_payloads");
                if b.windows(3).any(|w| w == b"OK\n") {
                    acc.inc("payload_contains_OK_line");
                }
                if b.contains(&0) {
                    acc.inc("payload_contains_NUL");
                }
                if b.len() > 4096 {
                    acc.inc("payload_over_4096");
                }
            }
            for (k, v) in &f.fields {
                if matches!(k.as_str(), "OK" | "ACK" | "list_OK" | "binary") {
                    acc.inc("keyword_like_keys");
                }
                if matches!(v.as_str(), "OK" | "list_OK" | "ACK [5@0] {} x" | "binary: 3") {
                    acc.inc("keyword_like_values");
                }
                if v.is_empty() {
                    acc.inc("empty_values");
                }
                if !v.is_ascii() {
                    acc.inc("non_ascii_values");
                }
                if v.len() > 4096 {
                    acc.inc("values_over_4096");
                }
            }
        }
    }
}

impl Property for C03 {
    fn id(&self) -> &'static str {
        "C03"
    }
    fn cases(&self, cfg: &Cfg) -> u64 {
        cfg.tier.pick(12_000, 200_000)
    }
    fn run_case(&self, cfg: &Cfg, i: u64, acc: &mut Acc) {
        let mut r = Rng::keyed(&[cfg.seed, 3, i]);
        let session = if i % 64 == 63 {
            acc.inc("sessions_with_huge_binary_part");
            gen::gen_huge_session(&mut r)
        } else if i % 16 == 15 {
            gen::gen_edge_session(&mut r)
        } else {
            gen::gen_session(&mut r, 6)
        };
        let enc = encode_session(&session);
        features(acc, &session);
        acc.inc("sessions");
        let nontrivial = session.len() >= 2 || session.iter().any(|r| r.error.is_some() || r.frames.iter().any(|f| f.binary.is_some()));
        let mut expected: Vec<Item> = enc.expected.iter().cloned().map(Item::Resp).collect();
        expected.push(Item::CleanEnd);
        let mut segs = vec![Seg::Whole, Seg::Bytewise, Seg::random(&mut r, enc.bytes.len(), 24)];
        if i % 64 == 63 {
            let b = enc.boundaries[0];
            for c in [b.saturating_sub(1), b, b + 1, b / 2] {
                if c > 0 && c < enc.bytes.len() {
                    segs.push(Seg::Cuts(vec![c]));
                }
            }
            segs.push(Seg::Cuts((1..enc.bytes.len() / 4096).map(|k| k * 4096).collect()));
            segs.push(Seg::Cuts((1..enc.bytes.len() / 65536 + 1).map(|k| (k * 65536).min(enc.bytes.len() - 1)).collect()));
        }
        for (k, seg) in segs.iter().enumerate() {
            if *seg == Seg::Bytewise && enc.bytes.len() > 30_000 {
                continue;
            }
            // huge sessions: additionally cut right where the big response ends, so that the next response
            // arrives in the same read as its last bytes or in the following one
            for flavour in [Flavour::Sync, Flavour::Async] {
                let spec = RunSpec {
                    greeting: GREETING,
                    body: &enc.bytes,
                    seg,
                    end: StreamEnd::Eof,
                    flavour,
                    pending_p: if k == 2 { 48 } else { 0 },
                    pending_seed: mix(&[cfg.seed, i, k as u64]),
                    max_responses: 32,
                    keep_alive: true,
                };
                // every other session: the responses are fetched through the send+receive shorthands
                if i % 2 == 1 {
                    crate::sim::wirerun::VIA_COMMAND.with(|v| v.set(session.len()));
                    acc.inc("runs_through_command_shorthands");
                }
                let out = run(&spec);
                acc.inc("evaluations");
                acc.count("responses_compared", out.items.iter().filter(|i| matches!(i, Item::Resp(_))).count() as u64);
                for hv in &out.hook_violations {
                    acc.violation(i, None, format!("hook invariant: {}", hv), J::obj().set("stream", J::hex(&enc.bytes)));
                }
                if out.items != expected {
                    let idx = out.items.iter().zip(expected.iter()).position(|(a, b)| a != b).unwrap_or(out.items.len().min(expected.len()));
                    acc.violation(
                        i,
                        None,
                        format!(
                            "decoded != encoded at response {} ({} connection, {}): expected {} got {}",
                            idx,
                            flavour.name(),
                            seg.describe(),
                            expected.get(idx).map(|x| x.to_json().render_compact()).unwrap_or_else(|| "<nothing>".into()),
                            out.items.get(idx).map(|x| x.to_json().render_compact()).unwrap_or_else(|| "<nothing>".into()),
                        ),
                        J::obj()
                            .set("stream_hex", J::hex(&enc.bytes[..enc.bytes.len().min(65536)]))
                            .set("stream_text", J::bytes(&enc.bytes[..enc.bytes.len().min(4096)]))
                            .set("boundaries", enc.boundaries.clone())
                            .set("segmentation", seg.describe())
                            .set("flavour", flavour.name()),
                    );
                }
            }
        }
        if nontrivial {
            acc.distinct("nontrivial", hash_bytes(&enc.bytes));
        }
        if acc.want_sample() && nontrivial {
            acc.sample(
                i,
                J::obj()
                    .set("responses", session.len())
                    .set("encoded_len", enc.bytes.len())
                    .set("encoded_head", J::bytes(&enc.bytes[..enc.bytes.len().min(200)]))
                    .set("decoded_as_expected", J::Arr(enc.expected.iter().take(2).map(|d| d.to_json()).collect())),
            );
        }
    }
    fn meta(&self, _cfg: &Cfg, _acc: &Acc) -> Meta {
        Meta {
            level: "exploration",
            rule: "random abstract sessions of 1-6 responses (0-8 frames, 0-30 fields, keyword-like keys/values, empty/non-ASCII/CR/NUL/10 KiB values, <=1 binary part per frame at any position with hostile payloads, ACK errors incl. u64::MAX codes, single and list form; every 16th session lands on a 4096*2^k buffer edge, every 64th carries a 66-530 KB binary part followed by further responses and is additionally cut around the end of the big response and at 4 KiB / 64 KiB multiples) encoded by the harness's reference encoder and decoded by the real blocking and async connections (receive(), and in every other session the command()/command_list() shorthands) under whole, byte-at-a-time and random segmentation; compared structurally through the public API incl. Ok(None) after the last response; non-trivial = session with >=2 responses or a binary part or an error; distinct by hash of the encoded bytes".into(),
            nontrivial_set: "nontrivial",
            assumptions: vec![
                "normalisation at the protocol's non-injective points: one-frame list form == single form; successful empty list == one empty frame; a failing command has no frame (output it printed before its ACK belongs to no successful command and is dropped)".into(),
                "field `binary` is only generated with a non-numeric value (a numeric one is a binary header by definition)".into(),
                "a binary part's position among the fields of its frame is not observable through the API and not compared".into(),
            ],
            exhaustive: None,
            floors: vec![
                ("binary_payloads".into(), 20),
                ("runs_through_command_shorthands".into(), 100),
                ("sessions_with_huge_binary_part".into(), 10),
                ("list_with_error".into(), 5),
                ("errors_after_partial_output".into(), 5),
                ("responses_after_binary".into(), 5),
                ("responses_after_error".into(), 5),
                ("keyword_like_values".into(), 5),
                ("payload_contains_OK_line".into(), 2),
            ],
            extra: vec![],
        }
    }
}
