use crate::util::Cfg;
use crate::Property;

pub mod c01;
pub mod c02;
pub mod c03;
pub mod c04;
pub mod c05;
pub mod c06;
pub mod c07;
pub mod c08;
pub mod c09;
pub mod c10;
pub mod c11;
pub mod c12;
pub mod c13;
pub mod c14;
pub mod c15;
pub mod c16;
pub mod c17;
pub mod c18;
pub mod c19;
pub mod c20;
pub mod miri;
pub mod sess;
pub mod typed;

pub fn lookup(id: &str) -> Option<Box<dyn Property>> {
    Some(match id {
        "C01" => Box::new(c01::C01),
        "C02" => Box::new(c02::C02),
        "C03" => Box::new(c03::C03),
        "C04" => Box::new(c04::C04),
        "C05" => Box::new(c05::C05),
        "C06" => Box::new(c06::C06),
        "C07" => Box::new(c07::C07),
        "C08" => Box::new(c08::C08),
        "C09" => Box::new(c09::C09),
        "C10" => Box::new(c10::C10),
        "C11" => Box::new(c11::C11),
        "C12" => Box::new(c12::C12),
        "C13" => Box::new(c13::C13),
        "C14" => Box::new(c14::C14),
        "C15" => Box::new(c15::C15),
        "C16" => Box::new(c16::C16),
        "C17" => Box::new(c17::C17),
        "C18" => Box::new(c18::C18),
        "C19" => Box::new(c19::C19),
        "C20" => Box::new(c20::C20),
        _ => return None,
    })
}

/// Child-process modes (`--child <mode>`); returns the exit code if one was handled.
pub fn child_dispatch(cfg: &Cfg) -> Option<i32> {
    if let Some(which) = cfg.extra_val("--miri-stage") {
        return Some(miri::inside(cfg, which));
    }
    None
}
