//! C19 — frames and responses behave as ordered collections (lock-step Vec model).

use mpd_protocol::response::{Error, Frame, Response};

use crate::refmodel::framemodel::{response_items, DequeCursor, FrameModel, RItem};
use crate::refmodel::gen;
use crate::refmodel::wire::{AError, AFrame, AResponse, DFrame, Form};
use crate::sim::wirerun::{frame_to_d, parse_all, response_to_d};
use crate::util::acc::Acc;
use crate::util::json::J;
use crate::util::panics;
use crate::util::rng::{mix, Rng};
use crate::util::Cfg;
use crate::{Meta, Property};

pub struct C19;

fn gen_frame(r: &mut Rng) -> AFrame {
    // few distinct keys so that duplicates and case variants are frequent
    const KEYS: &[&str] = &["a", "A", "b", "file", "File", "FILE", "Artist", "artist", "x-y", "x_y", "Title", "binary", "OK"];
    let n = match r.below(8) {
        0 => 0,
        1 => r.range(20, 40),
        _ => r.range(1, 10),
    };
    let fields = (0..n)
        .map(|k| {
            let key = r.pick(KEYS).to_string();
            let mut v = if r.chance(1, 4) { gen::gen_value(r) } else { format!("v{}", k) };
            if v.len() > 64 {
                let mut c = 64;
                while !v.is_char_boundary(c) {
                    c -= 1;
                }
                v.truncate(c);
            }
            if key == "binary" {
                v.insert(0, 'x');
            }
            (key, v)
        })
        .collect::<Vec<_>>();
    let binary = if r.chance(1, 3) {
        let bl = r.below(40);
        Some((r.below(n + 1), r.bytes(bl)))
    } else {
        None
    };
    AFrame { fields, binary }
}

fn err_to_a(e: &Error) -> AError {
    AError { code: e.code, index: e.command_index, command: e.current_command.as_ref().map(|c| c.to_string()), message: e.message.to_string() }
}

struct Ctx<'a> {
    acc: &'a mut Acc,
    case: u64,
    ops: Vec<String>,
    failed: bool,
}

impl Ctx<'_> {
    fn check<T: PartialEq + std::fmt::Debug>(&mut self, op: String, real: T, model: T) {
        self.acc.inc("operations_compared");
        if real != model && !self.failed {
            self.failed = true;
            let hist = self.ops.join("; ");
            self.acc.violation(
                self.case,
                None,
                format!("{}: real {:?} != model {:?}", op, real, model),
                J::obj().set("operation", op.clone()).set("history", hist),
            );
        }
        if self.ops.len() < 80 {
            self.ops.push(op);
        }
    }
}

fn frame_history(r: &mut Rng, real: &mut Frame, model: &mut FrameModel, cx: &mut Ctx<'_>) -> bool {
    const PROBE_KEYS: &[&str] = &["a", "A", "b", "B", "file", "File", "FILE", "Artist", "artist", "ARTIST", "x-y", "x_y", "Title", "binary", "OK", "missing", ""];
    let nops = r.range(1, 60);
    let mut removed = false;
    let mut iterated_both_after_removal = false;
    for _ in 0..nops {
        match r.below(11) {
            0 | 1 => {
                let k = *r.pick(PROBE_KEYS);
                cx.check(format!("find({:?})", k), real.find(k).map(|s| s.to_string()), model.find(k));
            }
            2 | 3 => {
                let k = *r.pick(PROBE_KEYS);
                let m = model.get(k);
                if m.is_some() {
                    removed = true;
                }
                cx.check(format!("get({:?})", k), real.get(k), m);
            }
            4 => {
                cx.check("fields_len()".into(), real.fields_len(), model.fields_len());
                cx.check("is_empty()".into(), real.is_empty(), model.is_empty());
            }
            5 => {
                cx.check("has_binary()".into(), real.has_binary(), model.binary.is_some());
                cx.check("binary()".into(), real.binary().map(|b| b.to_vec()), model.binary.clone());
            }
            6 => {
                if r.chance(1, 3) {
                    cx.check("take_binary()".into(), real.take_binary().map(|b| b.to_vec()), model.binary.take());
                }
            }
            7 | 8 => {
                // borrowed iteration with random next/next_back, continued past exhaustion
                let mut it = if r.chance(1, 2) { real.fields() } else { (&*real).into_iter() };
                let mut cur = DequeCursor::new(model.remaining());
                let steps = cur.len() + 3;
                let mut used_front = false;
                let mut used_back = false;
                for _ in 0..steps {
                    // whatever bounds the iterator announces, the number of pairs it still yields lies within them
                    let (lo, hi) = it.size_hint();
                    cx.check(format!("fields().size_hint() = ({}, {:?}) brackets the {} remaining pairs", lo, hi, cur.len()), lo <= cur.len() && hi.map_or(true, |h| cur.len() <= h), true);
                    if r.chance(1, 2) {
                        used_front = true;
                        cx.check("fields().next()".into(), it.next().map(|(k, v)| (k.to_string(), v.to_string())), cur.next());
                    } else {
                        used_back = true;
                        cx.check("fields().next_back()".into(), it.next_back().map(|(k, v)| (k.to_string(), v.to_string())), cur.next_back());
                    }
                }
                if removed && used_front && used_back {
                    iterated_both_after_removal = true;
                }
            }
            9 => {
                // clone + equality + owned iteration on the clone
                let c = real.clone();
                cx.check("clone()==self".into(), c == *real, true);
                let mut it = c.into_iter();
                let mut cur = DequeCursor::new(model.remaining());
                let mut bin = model.binary.clone();
                let steps = cur.len() + 2;
                for _ in 0..steps {
                    let (lo, hi) = it.size_hint();
                    cx.check(format!("Frame::into_iter().size_hint() = ({}, {:?}) brackets the {} remaining pairs", lo, hi, cur.len()), lo <= cur.len() && hi.map_or(true, |h| cur.len() <= h), true);
                    match r.below(5) {
                        0 | 1 => cx.check("into_iter().next()".into(), it.next().map(|(k, v)| (k.to_string(), v)), cur.next()),
                        2 | 3 => cx.check("into_iter().next_back()".into(), it.next_back().map(|(k, v)| (k.to_string(), v)), cur.next_back()),
                        _ => cx.check("into_iter().take_binary()".into(), it.take_binary().map(|b| b.to_vec()), bin.take()),
                    }
                }
            }
            _ => {
                // snapshot through the API equals the model
                let d = frame_to_d(real);
                cx.check("snapshot fields".into(), d.fields, model.remaining());
                if r.chance(1, 4) {
                    let rem = model.remaining();
                    adaptors(cx, "fields()", r, || real.fields(), |(k, v)| (k.to_string(), v.to_string()), &rem);
                    adaptors(cx, "Frame::into_iter()", r, || real.clone().into_iter(), |(k, v)| (k.to_string(), v), &rem);
                }
            }
        }
    }
    iterated_both_after_removal
}

/// The provided iterator methods (`nth`, `nth_back`, `skip`, `step_by`, `last`, `count`, `rev`, ...) may be overridden by
/// an implementation; whatever it does, they must agree with the same adaptor applied to the model sequence.
fn adaptors<T, I>(cx: &mut Ctx<'_>, what: &str, r: &mut Rng, mk: impl Fn() -> I, f: impl Fn(I::Item) -> T + Copy, model: &[T])
where
    T: PartialEq + std::fmt::Debug + Clone,
    I: DoubleEndedIterator,
{
    // (the adaptor is applied to the REAL iterator and the conversion to the model's item type comes last: `Map` would
    // hide an overridden `nth` behind its own default implementation)
    let n = model.len();
    let m = || model.iter().cloned();
    for k in [0, r.below(n + 3), n, n + 1] {
        {
            let (mut a, mut b) = (mk(), m());
            cx.check(format!("{}.nth({})", what, k), a.nth(k).map(f), b.nth(k));
            cx.check(format!("{}.nth({}) then next()", what, k), a.next().map(f), b.next());
            cx.check(format!("{}.nth({}) then next_back()", what, k), a.next_back().map(f), b.next_back());
        }
        {
            let (mut a, mut b) = (mk(), m());
            cx.check(format!("{}.nth_back({})", what, k), a.nth_back(k).map(f), b.nth_back(k));
            cx.check(format!("{}.nth_back({}) then next_back()", what, k), a.next_back().map(f), b.next_back());
            cx.check(format!("{}.nth_back({}) then next()", what, k), a.next().map(f), b.next());
        }
        cx.check(format!("{}.skip({}).collect()", what, k), mk().skip(k).map(f).collect::<Vec<_>>(), m().skip(k).collect::<Vec<_>>());
        cx.check(format!("{}.step_by({}).collect()", what, k + 1), mk().step_by(k + 1).map(f).collect::<Vec<_>>(), m().step_by(k + 1).collect::<Vec<_>>());
        cx.check(format!("{}.take({}).last()", what, k), mk().take(k).last().map(f), m().take(k).last());
        cx.check(format!("{}.rev().skip({}).collect()", what, k), mk().rev().skip(k).map(f).collect::<Vec<_>>(), m().rev().skip(k).collect::<Vec<_>>());
    }
    {
        let (lo, hi) = mk().size_hint();
        cx.check(format!("{}.size_hint() = ({}, {:?}) brackets the {} items", what, lo, hi, n), lo <= n && hi.map_or(true, |h| n <= h), true);
        // collecting relies on the lower bound
        cx.check(format!("{}.collect::<Vec<_>>().len()", what), mk().map(f).collect::<Vec<_>>().len(), n);
    }
    cx.check(format!("{}.count()", what), mk().count(), n);
    cx.check(format!("{}.last()", what), mk().last().map(f), m().last());
    cx.check(format!("{}.rev().collect()", what), mk().rev().map(f).collect::<Vec<_>>(), m().rev().collect::<Vec<_>>());
    cx.check(format!("{}.fold", what), mk().fold(0usize, |a, _| a + 1), n);
    cx.check(format!("{}.collect()", what), mk().map(f).collect::<Vec<_>>(), m().collect::<Vec<_>>());
    let mut a = mk();
    let _ = a.next();
    cx.check(format!("{}.next() then count()", what), a.count(), n.saturating_sub(1));
    // the generic conformance walk (every provided method, also on iterators already advanced from either end)
    let f2 = |x: I::Item| f(x);
    let res = crate::util::itercheck::forward(what, r, &mk, &f2, model).and_then(|_| crate::util::itercheck::double_ended(what, r, &mk, &f2, model));
    if let Err(e) = res {
        cx.check(e, false, true);
    }
}

fn response_history(r: &mut Rng, real: &Response, frames: &[DFrame], error: &Option<AError>, cx: &mut Ctx<'_>) {
    let items = response_items(frames, error);
    // printing a response, its frames and its error (an application's log line) returns
    let _ = format!("{:?} {:#?}", real, real);
    for f in real.frames() {
        match f {
            Ok(f) => {
                let _ = format!("{:?} {:#?}", f, f);
            }
            Err(e) => {
                let _ = format!("{:?} {:#?}", e, e);
            }
        }
    }
    cx.check("is_error()".into(), real.is_error(), error.is_some());
    cx.check("is_success()".into(), real.is_success(), error.is_none());
    cx.check("successful_frames()".into(), real.successful_frames(), frames.len());
    // borrowed iteration
    for variant in 0..2 {
        let mut it = if variant == 0 { real.frames() } else { real.into_iter() };
        let mut cur = DequeCursor::new(items.clone());
        let steps = cur.len() + 3;
        for _ in 0..steps {
            cx.check("frames().size_hint()".into(), it.size_hint(), (cur.len(), Some(cur.len())));
            cx.check("frames().len()".into(), it.len(), cur.len());
            if r.chance(1, 2) {
                let got = it.next().map(|x| match x {
                    Ok(f) => RItem::Frame(frame_to_d(f)),
                    Err(e) => RItem::Error(err_to_a(e)),
                });
                cx.check("frames().next()".into(), got, cur.next());
            } else {
                let got = it.next_back().map(|x| match x {
                    Ok(f) => RItem::Frame(frame_to_d(f)),
                    Err(e) => RItem::Error(err_to_a(e)),
                });
                cx.check("frames().next_back()".into(), got, cur.next_back());
            }
        }
    }
    // owned iteration
    {
        let mut it = real.clone().into_iter();
        let mut cur = DequeCursor::new(items.clone());
        let steps = cur.len() + 3;
        for _ in 0..steps {
            cx.check("into_iter().size_hint()".into(), it.size_hint(), (cur.len(), Some(cur.len())));
            cx.check("into_iter().len()".into(), it.len(), cur.len());
            if r.chance(1, 2) {
                let got = it.next().map(|x| match x {
                    Ok(f) => RItem::Frame(frame_to_d(&f)),
                    Err(e) => RItem::Error(err_to_a(&e)),
                });
                cx.check("into_iter().next()".into(), got, cur.next());
            } else {
                let got = it.next_back().map(|x| match x {
                    Ok(f) => RItem::Frame(frame_to_d(&f)),
                    Err(e) => RItem::Error(err_to_a(&e)),
                });
                cx.check("into_iter().next_back()".into(), got, cur.next_back());
            }
        }
    }
    adaptors(
        cx,
        "frames()",
        r,
        || real.frames(),
        |x| match x {
            Ok(f) => RItem::Frame(frame_to_d(f)),
            Err(e) => RItem::Error(err_to_a(e)),
        },
        &items,
    );
    adaptors(
        cx,
        "into_iter()",
        r,
        || real.clone().into_iter(),
        |x| match x {
            Ok(f) => RItem::Frame(frame_to_d(&f)),
            Err(e) => RItem::Error(err_to_a(&e)),
        },
        &items,
    );
    // into_single_frame: first frame or the error
    let single = real.clone().into_single_frame();
    let got = match single {
        Ok(f) => RItem::Frame(frame_to_d(&f)),
        Err(e) => RItem::Error(err_to_a(&e)),
    };
    cx.check("into_single_frame()".into(), Some(got), items.first().cloned());
    cx.check("clone()==self".into(), real.clone() == *real, true);
}

impl Property for C19 {
    fn id(&self) -> &'static str {
        "C19"
    }
    fn cases(&self, cfg: &Cfg) -> u64 {
        cfg.tier.pick(30_000, 400_000)
    }
    fn run_case(&self, cfg: &Cfg, i: u64, acc: &mut Acc) {
        let mut r = Rng::keyed(&[cfg.seed, 19, i]);
        // a response with 1-6 frames, +- error (list form), or single form
        let with_error = r.chance(1, 3);
        let nframes = if with_error { r.below(6) } else { r.range(1, 6) };
        let frames: Vec<AFrame> = (0..nframes).map(|_| gen_frame(&mut r)).collect();
        let error = if with_error { Some(gen::gen_error(&mut r, nframes as u64)) } else { None };
        let resp = AResponse { frames: frames.clone(), error: error.clone(), form: Form::List, partial: if error.is_some() && r.chance(1, 4) { Some(gen::gen_partial(&mut r)) } else { None } };
        let bytes = resp.encode();
        let real = match parse_all(&bytes) {
            Ok(mut v) if v.len() == 1 => v.pop().unwrap(),
            other => {
                acc.violation(i, None, format!("parser did not return exactly one response for a well-formed list response: {:?}", other.map(|v| v.len())), J::obj().set("stream", J::bytes(&bytes)));
                return;
            }
        };
        acc.inc("evaluations");
        let expected = resp.expected();
        // the decoded view must agree first (C03), otherwise the model comparison is meaningless
        if response_to_d(&real) != expected {
            acc.violation(i, None, "decoded response differs from the encoded one (see C03)".to_string(), J::obj().set("stream", J::bytes(&bytes)));
            return;
        }
        let mut cx = Ctx { acc, case: i, ops: Vec::new(), failed: false };
        let res = panics::catch(|| {
            response_history(&mut r, &real, &expected.frames, &expected.error, &mut cx);
            // frame histories on each frame
            let mut nontrivial = false;
            let mut hist_hash = 0u64;
            for (k, f) in real.clone().into_iter().enumerate() {
                if let Ok(mut f) = f {
                    let mut model = FrameModel::from_d(&expected.frames[k]);
                    cx.ops.clear();
                    if frame_history(&mut r, &mut f, &mut model, &mut cx) {
                        nontrivial = true;
                    }
                    hist_hash = mix(&[hist_hash, crate::util::rng::hash_bytes(cx.ops.join(";").as_bytes())]);
                }
            }
            (nontrivial, hist_hash)
        });
        match res {
            Ok((nontrivial, h)) => {
                cx.acc.inc("histories");
                if nontrivial {
                    cx.acc.distinct("nontrivial", mix(&[crate::util::rng::hash_bytes(&bytes), h]));
                }
                if cx.acc.want_sample() && nontrivial {
                    let ops = cx.ops.iter().take(14).cloned().collect::<Vec<_>>();
                    cx.acc.sample(i, J::obj().set("response", J::bytes(&bytes[..bytes.len().min(200)])).set("last_frame_history_head", ops));
                }
            }
            Err(p) => {
                let hist = cx.ops.join("; ");
                cx.acc.violation(i, None, format!("panic during collection operations: {}", p.0), J::obj().set("history", hist).set("stream", J::bytes(&bytes)));
            }
        }
    }
    fn meta(&self, _cfg: &Cfg, _acc: &Acc) -> Meta {
        Meta {
            level: "exploration",
            rule: "responses with 0-6 frames (0-40 fields over 13 keys incl. duplicates and case variants, optional binary) +- error are produced by the real parser; random histories of 1-60 operations per frame (find/get over 17 probe keys, fields_len/is_empty/has_binary/binary/take_binary, borrowed iteration via fields() and &Frame with random next/next_back continued past exhaustion, clone + owned iteration with take_binary) and response iteration (frames(), &Response, owned; random next/next_back with size_hint/len after every step; is_error/is_success/successful_frames/into_single_frame; the provided iterator methods nth/nth_back/skip/step_by/take+last/count/last/rev/fold on all four iterator types, also overshooting the end; size_hint of every iterator must bracket what iteration yields at every step) are compared step by step with a Vec/VecDeque model; non-trivial = history with >=1 removal followed by iteration from both ends; distinct by (response bytes, operation sequence)".into(),
            nontrivial_set: "nontrivial",
            assumptions: vec!["frames bounded at 40 fields (recursion depth of the hole-skipping iterators on frames with very many removed fields is out of scope)".into()],
            exhaustive: None,
            floors: vec![("operations_compared".into(), 100_000)],
            extra: vec![],
        }
    }
}
