//! C12 — typed response conversion is total: never panics on any server reply.

use std::error::Error;

use mpd_client::commands::{self as c, Command as TypedCommand, CommandList as TypedList, SongId, SongPosition};
use mpd_client::filter::Filter;
use mpd_client::responses::TypedResponseError;
use mpd_client::tag::Tag;
use mpd_protocol::response::Frame;

use super::c14;
use super::c16;
use super::typed::{self, frame_of, gen_ms, gen_name, gen_u64_edge, kv, long_edges, ms_str, TIMESTAMPS, VALUE_EDGES};
use crate::util::acc::Acc;
use crate::util::json::J;
use crate::util::panics;
use crate::util::rng::{hash_bytes, mix, Rng};
use crate::util::Cfg;
use crate::{Meta, Property};

pub struct C12;

fn walk_err(e: &TypedResponseError) -> &'static str {
    let _ = format!("{} {:?}", e, e);
    let mut src: Option<&(dyn Error + 'static)> = e.source();
    let mut depth = 0;
    while let Some(s) = src {
        let _ = format!("{} {:?}", s, s);
        src = s.source();
        depth += 1;
        if depth > 16 {
            break;
        }
    }
    "err"
}

fn dbg<T: std::fmt::Debug + Clone + PartialEq>(v: &T) {
    let _ = format!("{:?}", v);
    let c = v.clone();
    let _ = c == *v;
}

fn walk_songs(v: &[mpd_client::responses::Song]) {
    for s in v {
        dbg(s);
        let _ = (s.artists().len(), s.album_artists().len(), s.album(), s.title(), s.number(), s.file_path());
        if let Some(t) = &s.last_modified {
            let _ = t.raw();
            #[cfg(feature = "chrono")]
            let _ = t.chrono_datetime();
        }
    }
}

fn walk_list<const N: usize>(l: &mpd_client::responses::List<N>) {
    dbg(l);
    let mut n = 0;
    for (v, g) in l.grouped_values() {
        n += v.len() + g.len();
    }
    let _ = l.grouped_by();
    let it = l.grouped_values();
    let _ = format!("{:?}", it.clone());
    let _ = l.clone().into_raw_values().len() + n;
}

type Conv = (&'static str, Box<dyn Fn(Frame) -> &'static str>);

macro_rules! conv {
    ($v:ident, $name:expr, $cmd:expr, |$r:ident| $walk:expr) => {
        $v.push((
            $name,
            Box::new(move |f: Frame| match $cmd.response(f) {
                Ok($r) => {
                    $walk;
                    "ok"
                }
                Err(e) => walk_err(&e),
            }),
        ));
    };
}

/// Every predefined command type (every constructor family), with a walk over its typed result.
pub fn converters() -> Vec<Conv> {
    let mut v: Vec<Conv> = Vec::new();
    let filter = || Filter::tag(Tag::Artist, "x");
    conv!(v, "ClearQueue", c::ClearQueue, |r| dbg(&r));
    conv!(v, "Next", c::Next, |r| dbg(&r));
    conv!(v, "Ping", c::Ping, |r| dbg(&r));
    conv!(v, "Previous", c::Previous, |r| dbg(&r));
    conv!(v, "Stop", c::Stop, |r| dbg(&r));
    conv!(v, "ClearPlaylist", c::ClearPlaylist("p"), |r| dbg(&r));
    conv!(v, "DeletePlaylist", c::DeletePlaylist("p"), |r| dbg(&r));
    conv!(v, "SaveQueueAsPlaylist", c::SaveQueueAsPlaylist("p"), |r| dbg(&r));
    conv!(v, "SetConsume", c::SetConsume(true), |r| dbg(&r));
    conv!(v, "SetPause", c::SetPause(true), |r| dbg(&r));
    conv!(v, "SetRandom", c::SetRandom(true), |r| dbg(&r));
    conv!(v, "SetRepeat", c::SetRepeat(true), |r| dbg(&r));
    conv!(v, "SubscribeToChannel", c::SubscribeToChannel("c"), |r| dbg(&r));
    conv!(v, "UnsubscribeFromChannel", c::UnsubscribeFromChannel("c"), |r| dbg(&r));
    conv!(v, "ReplayGainStatus", c::ReplayGainStatus, |r| dbg(&r));
    conv!(v, "Status", c::Status, |r| dbg(&r));
    conv!(v, "Stats", c::Stats, |r| dbg(&r));
    conv!(v, "Queue", c::Queue, |r| {
        dbg(&r);
        walk_songs(&r.iter().map(|s| s.song.clone()).collect::<Vec<_>>())
    });
    conv!(v, "QueueRange::song", c::Queue::song(SongId(1)), |r| dbg(&r));
    conv!(v, "QueueRange::range", c::QueueRange::range(SongPosition(1)..), |r| dbg(&r));
    // the same decoders behind requests with parameters at the top of their domain: what the caller asked for (a
    // huge range or window, an offset near the maximum) must not make the conversion of the REPLY panic
    conv!(v, "QueueRange::range(5..=MAX)", c::QueueRange::range(SongPosition(5)..=SongPosition(usize::MAX)), |r| dbg(&r));
    conv!(v, "QueueRange::range(..MAX)", c::QueueRange::range(..SongPosition(usize::MAX)), |r| dbg(&r));
    conv!(v, "QueueRange::range(7..3)", c::QueueRange::range(SongPosition(7)..SongPosition(3)), |r| dbg(&r));
    conv!(v, "Find::window(..MAX)", c::Find::new(filter()).window(..usize::MAX), |r| walk_songs(&r));
    conv!(v, "Find::window(MAX-1..=MAX)", c::Find::new(filter()).window(usize::MAX - 1..=usize::MAX), |r| walk_songs(&r));
    conv!(v, "AlbumArt::offset(MAX)", c::AlbumArt::new("u").offset(usize::MAX), |r| dbg(&r));
    conv!(v, "AlbumArtEmbedded::offset(MAX)", c::AlbumArtEmbedded::new("u").offset(usize::MAX), |r| dbg(&r));
    conv!(v, "CurrentSong", c::CurrentSong, |r| dbg(&r));
    conv!(v, "GetPlaylists", c::GetPlaylists, |r| {
        dbg(&r);
        for p in &r {
            let _ = p.last_modified.raw();
            let _ = p.last_modified.cmp(&p.last_modified);
            #[cfg(feature = "chrono")]
            let _ = (p.last_modified.chrono_datetime(), p.last_modified == p.last_modified.chrono_datetime());
        }
    });
    conv!(v, "GetEnabledTagTypes", c::GetEnabledTagTypes, |r| dbg(&r));
    conv!(v, "GetPlaylist", c::GetPlaylist("p"), |r| walk_songs(&r));
    conv!(v, "SetVolume", c::SetVolume(5), |r| dbg(&r));
    conv!(v, "SetSingle", c::SetSingle(c::SingleMode::Oneshot), |r| dbg(&r));
    conv!(v, "SetReplayGainMode", c::SetReplayGainMode(c::ReplayGainMode::Auto), |r| dbg(&r));
    conv!(v, "Crossfade", c::Crossfade(std::time::Duration::from_secs(1)), |r| dbg(&r));
    conv!(v, "SeekTo", c::SeekTo(c::Song::Id(SongId(1)), std::time::Duration::from_secs(1)), |r| dbg(&r));
    conv!(v, "Seek", c::Seek(c::SeekMode::Forward(std::time::Duration::from_secs(1))), |r| dbg(&r));
    conv!(v, "Shuffle", c::Shuffle::all(), |r| dbg(&r));
    conv!(v, "Play", c::Play::current(), |r| dbg(&r));
    conv!(v, "Add", c::Add::uri("u"), |r| dbg(&r));
    conv!(v, "Delete", c::Delete::id(SongId(1)), |r| dbg(&r));
    conv!(v, "Move", c::Move::id(SongId(1)).to_position(SongPosition(0)), |r| dbg(&r));
    conv!(v, "Find", c::Find::new(filter()).sort(Tag::Title).window(0..5), |r| walk_songs(&r));
    conv!(v, "List", c::List::new(Tag::Album), |r| {
        walk_list(&r);
        let a: Vec<&str> = r.values().collect();
        let b: Vec<&str> = (&r).into_iter().rev().collect();
        let it = r.values();
        let _ = (it.len(), it.clone().count(), it.clone().last(), it.clone().nth(1), it.clone().nth_back(1), a.len() + b.len());
        let mut oi = r.clone().into_iter();
        let _ = (oi.len(), oi.next_back(), oi.nth(0), oi.nth_back(0));
        let _ = r.clone().into_iter().count();
        let _ = r.clone().into_iter().last();
    });
    conv!(v, "List grouped 1", c::List::new(Tag::Title).group_by([Tag::Album]), |r| walk_list(&r));
    conv!(v, "List grouped 2", c::List::new(Tag::Title).filter(filter()).group_by([Tag::Album, Tag::AlbumArtist]), |r| walk_list(&r));
    conv!(v, "List grouped 3 (listed tag among groups)", c::List::new(Tag::Album).group_by([Tag::Album, Tag::Artist, Tag::Date]), |r| walk_list(&r));
    conv!(v, "Count", c::Count::new(filter()), |r| dbg(&r));
    conv!(v, "CountGrouped", c::CountGrouped::new(Tag::Album), |r| dbg(&r));
    conv!(v, "Count::group_by", c::Count::new(filter()).group_by(Tag::Other("songs".into())), |r| dbg(&r));
    conv!(v, "RenamePlaylist", c::RenamePlaylist::new("a", "b"), |r| dbg(&r));
    conv!(v, "LoadPlaylist", c::LoadPlaylist::name("a"), |r| dbg(&r));
    conv!(v, "AddToPlaylist", c::AddToPlaylist::new("a", "b"), |r| dbg(&r));
    conv!(v, "RemoveFromPlaylist", c::RemoveFromPlaylist::position("a", 1), |r| dbg(&r));
    conv!(v, "MoveInPlaylist", c::MoveInPlaylist::new("a", 1, 2), |r| dbg(&r));
    conv!(v, "ListAllIn", c::ListAllIn::root(), |r| walk_songs(&r));
    conv!(v, "SetBinaryLimit", c::SetBinaryLimit(1), |r| dbg(&r));
    conv!(v, "AlbumArt", c::AlbumArt::new("u"), |r| dbg(&r));
    conv!(v, "AlbumArtEmbedded", c::AlbumArtEmbedded::new("u").offset(5), |r| dbg(&r));
    conv!(v, "TagTypes", c::TagTypes::enable_all(), |r| dbg(&r));
    conv!(v, "StickerGet", c::StickerGet::new("u", "n"), |r| {
        dbg(&r);
        let _: String = r.into();
    });
    conv!(v, "StickerSet", c::StickerSet::new("u", "n", "v"), |r| dbg(&r));
    conv!(v, "StickerDelete", c::StickerDelete::new("u", "n"), |r| dbg(&r));
    conv!(v, "StickerList", c::StickerList::new("u"), |r| {
        dbg(&r);
        let _: std::collections::HashMap<String, String> = r.into();
    });
    conv!(v, "StickerFind", c::StickerFind::new("u", "n").where_eq("v"), |r| dbg(&r));
    conv!(v, "Update", c::Update::new(), |r| dbg(&r));
    conv!(v, "Rescan", c::Rescan::new(), |r| dbg(&r));
    conv!(v, "ReadChannelMessages", c::ReadChannelMessages, |r| dbg(&r));
    conv!(v, "ListChannels", c::ListChannels, |r| dbg(&r));
    conv!(v, "SendChannelMessage", c::SendChannelMessage::new("c", "m"), |r| dbg(&r));
    v
}

const KINDS: &[&str] = &[
    "status", "stats", "count", "count_grouped", "list", "list_grouped", "listplaylists", "sticker_get", "sticker_list", "sticker_find", "channels", "readmessages", "tagtypes", "update", "replay_gain", "addid",
    "song_listing", "queue_listing", "albumart", "empty", "idle",
];

/// A well-formed reply of the given kind (fields, optional binary).
fn source(r: &mut Rng, kind: &str) -> (Vec<(String, String)>, Option<Vec<u8>>) {
    let names = typed::tag_names();
    match kind {
        "status" => {
            let mask = (r.next_u64() as u32) & ((1 << c16::NOPT) - 1);
            let a = c16::gen_status(r, mask);
            let perm = r.next_u64() % 2 == 0;
            (c16::status_fields(&a, r, perm, true), None)
        }
        "stats" => (vec![kv("uptime", gen_ms(r)), kv("playtime", gen_ms(r)), kv("artists", gen_u64_edge(r)), kv("albums", gen_u64_edge(r)), kv("songs", gen_u64_edge(r)), kv("db_playtime", gen_ms(r)), kv("db_update", gen_u64_edge(r))], None),
        "count" => (vec![kv("songs", gen_u64_edge(r)), kv("playtime", gen_ms(r))], None),
        "count_grouped" => {
            let mut f = Vec::new();
            for _ in 0..r.below(5) {
                f.push(kv(*r.pick(&["Album", "songs", "Artist"]), gen_name(r)));
                f.push(kv("songs", gen_u64_edge(r)));
                f.push(kv("playtime", gen_ms(r)));
            }
            (f, None)
        }
        "list" => ((0..r.below(8)).map(|_| kv("Album", gen_name(r))).collect(), None),
        "list_grouped" => {
            let mut f = Vec::new();
            for _ in 0..r.below(8) {
                let t = r.pick(&names).clone();
                f.push(kv(&t, gen_name(r)));
                if r.chance(1, 2) {
                    f.push(kv("Title", gen_name(r)));
                }
                if r.chance(1, 2) {
                    f.push(kv("Album", gen_name(r)));
                }
            }
            (f, None)
        }
        "listplaylists" => {
            let mut f = Vec::new();
            for _ in 0..r.below(5) {
                f.push(kv("playlist", gen_name(r)));
                f.push(kv("Last-Modified", TIMESTAMPS[r.below(TIMESTAMPS.len())].0));
            }
            (f, None)
        }
        "sticker_get" => (vec![kv("sticker", format!("n={}", gen_name(r)))], None),
        "sticker_list" => ((0..r.below(5)).map(|k| kv("sticker", format!("n{}={}", k, gen_name(r)))).collect(), None),
        "sticker_find" => {
            let mut f = Vec::new();
            for _ in 0..r.below(5) {
                f.push(kv("file", gen_name(r)));
                f.push(kv("sticker", format!("n={}", gen_name(r))));
            }
            (f, None)
        }
        "channels" => ((0..r.below(5)).map(|_| kv("channel", gen_name(r))).collect(), None),
        "readmessages" => {
            let mut f = Vec::new();
            for _ in 0..r.below(5) {
                f.push(kv("channel", gen_name(r)));
                f.push(kv("message", gen_name(r)));
            }
            (f, None)
        }
        "tagtypes" => ((0..r.below(8)).map(|_| kv("tagtype", r.pick(&names))).collect(), None),
        "update" => (vec![kv("updating_db", gen_u64_edge(r))], None),
        "replay_gain" => (vec![kv("replay_gain_mode", *r.pick(&["off", "track", "album", "auto"]))], None),
        "addid" => (vec![kv("Id", gen_u64_edge(r))], None),
        "song_listing" => {
            let l = c14::gen_listing(r, false, 20);
            (c14::listing_lines(&l, r), None)
        }
        "queue_listing" => {
            let l = c14::gen_listing(r, true, 20);
            (c14::listing_lines(&l, r), None)
        }
        "albumart" => {
            let n = r.below(64);
            let mut f = vec![kv("size", gen_u64_edge(r))];
            if r.chance(1, 2) {
                f.push(kv("type", "image/jpeg"));
            }
            (f, Some(r.bytes(n)))
        }
        "idle" => ((0..r.below(4)).map(|_| kv("changed", *r.pick(&["player", "mixer", "foo_bar"]))).collect(), None),
        _ => (Vec::new(), None),
    }
}

const FOREIGN_KEYS: &[&str] = &[
    "file", "directory", "playlist", "Last-Modified", "duration", "Time", "Range", "Format", "Prio", "Pos", "Id", "songs", "playtime", "sticker", "channel", "message", "tagtype", "updating_db", "size", "type", "state",
    "volume", "repeat", "random", "consume", "single", "song", "songid", "nextsong", "nextsongid", "elapsed", "bitrate", "xfade", "error", "partition", "uptime", "db_playtime", "db_update", "artists", "albums", "Album",
    "Artist", "Title", "album", "ALBUM", "Date", "Track", "Disc", "track", "Disc", "Track", "x-custom", "Mood", "replay_gain_mode", "changed", "binary", "OK", "a", "Z", "_", "-",
];

fn pick_edge(r: &mut Rng) -> String {
    if r.chance(1, 10) {
        let l = long_edges();
        l[r.below(l.len())].clone()
    } else {
        r.pick(VALUE_EDGES).to_string()
    }
}

fn mutate(r: &mut Rng, f: &mut Vec<(String, String)>) -> u64 {
    let n = r.below(4);
    for _ in 0..n {
        match r.below(8) {
            7 if !f.is_empty() => {
                // every occurrence of one key disappears (a song without any duration, a status without state, ...)
                let k = f[r.below(f.len())].0.clone();
                let k = if k == "Time" || k == "duration" { None } else { Some(k) };
                f.retain(|(kk, _)| match &k {
                    Some(k) => kk != k,
                    None => kk != "Time" && kk != "duration",
                });
            }
            0 if !f.is_empty() => {
                let p = r.below(f.len());
                f.remove(p);
            }
            1 if !f.is_empty() => {
                let p = r.below(f.len());
                let x = f[p].clone();
                let q = r.below(f.len() + 1);
                f.insert(q, x);
            }
            2 => r.shuffle(f),
            3 if !f.is_empty() => {
                let p = r.below(f.len());
                f[p].0 = r.pick(FOREIGN_KEYS).to_string();
            }
            4 | 5 if !f.is_empty() => {
                let p = r.below(f.len());
                f[p].1 = pick_edge(r);
            }
            6 if !f.is_empty() && r.chance(1, 2) => {
                // an edge value on a field that is actually parsed (timestamps, numbers, ranges, tags read by accessors)
                const PARSED: &[&str] = &["Last-Modified", "Track", "Disc", "duration", "Time", "Range", "Prio", "Pos", "Id", "playtime", "songs", "size", "elapsed", "xfade", "volume"];
                let k = *r.pick(PARSED);
                let v = pick_edge(r);
                match f.iter_mut().find(|(kk, _)| kk == k) {
                    Some(e) => e.1 = v,
                    None => {
                        let p = r.below(f.len()) + 1;
                        f.insert(p.min(f.len()), kv(k, v));
                    }
                }
            }
            _ => {
                let p = r.below(f.len() + 1);
                f.insert(p, kv(*r.pick(FOREIGN_KEYS), pick_edge(r)));
            }
        }
    }
    for (k, v) in f.iter_mut() {
        if k == "binary" && !v.is_empty() && v.bytes().all(|b| b.is_ascii_digit()) {
            v.insert(0, 'x');
        }
    }
    n as u64
}

macro_rules! tuple_case {
    ($acc:ident, $case:ident, $frames:ident, $n:expr, $($c:expr),+) => {{
        let list = ($($c,)+);
        let fr = $frames.clone();
        let nframes = fr.len();
        $acc.inc("typed_list_conversions");
        $acc.inc("evaluations");
        match panics::catch(move || match list.responses(fr) {
            Ok(r) => {
                let _ = format!("{:?}", r);
                "ok"
            }
            Err(e) => walk_err(&e),
        }) {
            Ok(o) => $acc.inc(&format!("list_outcome_{}", o)),
            Err(p) => $acc.violation($case, None, format!("tuple command list of arity {} panicked on {} frames: {}", $n, nframes, p.0), J::obj().set("arity", $n).set("frames", nframes)),
        }
    }};
}

impl C12 {
    fn typed_lists(&self, acc: &mut Acc, case: u64, r: &mut Rng) {
        // frame counts 0..=arity+2 against every arity; frames: status-like, empty or hostile
        for arity in 1..=8usize {
            for count in 0..=arity + 2 {
                let mut frames: Vec<Frame> = Vec::new();
                for _ in 0..count {
                    let kind = *r.pick(&["status", "empty", "update", "stats"]);
                    let (mut f, b) = source(r, kind);
                    if r.chance(1, 3) {
                        mutate(r, &mut f);
                    }
                    if let Ok(fr) = frame_of(&f, b) {
                        frames.push(fr);
                    }
                }
                acc.distinct("nontrivial", mix(&[12, arity as u64, count as u64, frames.len() as u64, 1]));
                match arity {
                    1 => tuple_case!(acc, case, frames, 1, c::Status),
                    2 => tuple_case!(acc, case, frames, 2, c::Ping, c::Status),
                    3 => tuple_case!(acc, case, frames, 3, c::Ping, c::Update::new(), c::Stats),
                    4 => tuple_case!(acc, case, frames, 4, c::Ping, c::Ping, c::Status, c::Ping),
                    5 => tuple_case!(acc, case, frames, 5, c::Ping, c::Ping, c::Ping, c::Ping, c::Stats),
                    6 => tuple_case!(acc, case, frames, 6, c::Ping, c::Status, c::Ping, c::Ping, c::Ping, c::Ping),
                    7 => tuple_case!(acc, case, frames, 7, c::Ping, c::Ping, c::Ping, c::Ping, c::Ping, c::Ping, c::Update::new()),
                    _ => tuple_case!(acc, case, frames, 8, c::Ping, c::Ping, c::Ping, c::Ping, c::Ping, c::Ping, c::Ping, c::Status),
                }
            }
        }
        for len in 0..=5usize {
            for count in 0..=len + 2 {
                let mut frames: Vec<Frame> = Vec::new();
                for _ in 0..count {
                    let k = if r.chance(1, 2) { "update" } else { "empty" };
                    let (f, b) = source(r, k);
                    if let Ok(fr) = frame_of(&f, b) {
                        frames.push(fr);
                    }
                }
                let nframes = frames.len();
                acc.inc("typed_list_conversions");
                acc.inc("evaluations");
                acc.distinct("nontrivial", mix(&[12, len as u64, count as u64, 2]));
                let list: Vec<c::Update<'static>> = (0..len).map(|_| c::Update::new()).collect();
                match panics::catch(move || match list.responses(frames) {
                    Ok(r) => {
                        let _ = format!("{:?}", r);
                        "ok"
                    }
                    Err(e) => walk_err(&e),
                }) {
                    Ok(o) => acc.inc(&format!("list_outcome_{}", o)),
                    Err(p) => acc.violation(case, None, format!("Vec command list of length {} panicked on {} frames: {}", len, nframes, p.0), J::obj().set("len", len).set("frames", nframes)),
                }
            }
        }
    }
}

impl Property for C12 {
    fn id(&self) -> &'static str {
        "C12"
    }
    fn sharded(&self) -> bool {
        true
    }
    fn cases(&self, cfg: &Cfg) -> u64 {
        cfg.tier.pick(6_000, 130_000)
    }
    fn run_case(&self, cfg: &Cfg, i: u64, acc: &mut Acc) {
        let mut r = Rng::keyed(&[cfg.seed, 12, i]);
        if cfg!(feature = "chrono") {
            acc.inc("evaluations_chrono_build");
        }
        // (one case per (reply, field): 24 cases share one generated reply, so that the work spreads over the workers)
        let grid_blocks = (KINDS.len() * cfg.tier.pick(4, 8)) as u64 * 24;
        if i < grid_blocks {
            let gi = i / 24;
            let mut r = Rng::keyed(&[cfg.seed, 12, gi]);
            // directed grid: in a well-formed reply of each kind, EVERY field in turn gets EVERY value of the
            // edge set (so that each parsed field meets each hostile value at least once), all converters
            let convs = converters();
            let kind = KINDS[(gi as usize) % KINDS.len()];
            let (fields, binary) = source(&mut r, kind);
            if i % 24 == 0 {
                acc.inc("edge_grid_replies");
            }
            for p in (i % 24) as usize..fields.len().min((i % 24) as usize + 1) {
                let edges: Vec<String> = VALUE_EDGES.iter().map(|s| s.to_string()).chain(long_edges()).collect();
            for (edge_no, edge) in edges.iter().enumerate() {
                    let mut f = fields.clone();
                    if f[p].0 == "binary" {
                        continue;
                    }
                    f[p].1 = edge.to_string();
                    let Ok(frame) = frame_of(&f, binary.clone()) else { continue };
                    acc.inc("edge_grid_frames");
                    for (name, conv) in &convs {
                        acc.inc("evaluations");
                        acc.inc("conversions");
                        let fr = frame.clone();
                        match panics::catch(|| conv(fr)) {
                            Ok(o) => acc.inc(&format!("outcome_{}", o)),
                            Err(pn) => acc.violation(
                                i,
                                None,
                                format!("{}::response (or reading its result) panicked on a {} reply with `{}: {}`: {}", name, kind, f[p].0, edge.chars().take(40).collect::<String>(), pn.0),
                                J::obj().set("command", *name).set("reply_kind", kind).set("reply", J::Arr(f.iter().map(|(k, v)| J::Str(format!("{}: {}", k, v.chars().take(60).collect::<String>()))).collect())),
                            ),
                        }
                    }
                    acc.distinct("nontrivial", mix(&[hash_bytes(kind.as_bytes()), hash_bytes(f[p].0.as_bytes()), hash_bytes(edge.as_bytes())]));
                    // the same reply once more with every line of ONE other key taken out (rotating through the keys;
                    // `Time` and `duration` go together): a fallback computed from the edge value when another field is absent
                    let mut groups: Vec<&str> = Vec::new();
                    for (k, _) in &fields {
                        let k = if k == "Time" { "duration" } else { k.as_str() };
                        if !groups.contains(&k) && k != f[p].0 && k != "binary" {
                            groups.push(k);
                        }
                    }
                    if groups.is_empty() {
                        continue;
                    }
                    let g = groups[((p * 31 + edge_no + i as usize) % groups.len()) as usize];
                    let f2: Vec<(String, String)> = f.iter().filter(|(k, _)| !(k == g || (g == "duration" && k == "Time"))).cloned().collect();
                    let Ok(frame) = frame_of(&f2, binary.clone()) else { continue };
                    acc.inc("edge_grid_frames_with_another_key_absent");
                    for (name, conv) in &convs {
                        acc.inc("evaluations");
                        acc.inc("conversions");
                        let fr = frame.clone();
                        match panics::catch(|| conv(fr)) {
                            Ok(o) => acc.inc(&format!("outcome_{}", o)),
                            Err(pn) => acc.violation(
                                i,
                                None,
                                format!("{}::response (or reading its result) panicked on a {} reply with `{}: {}` and no `{}` line: {}", name, kind, f[p].0, edge.chars().take(40).collect::<String>(), g, pn.0),
                                J::obj().set("command", *name).set("reply_kind", kind).set("reply", J::Arr(f2.iter().map(|(k, v)| J::Str(format!("{}: {}", k, v.chars().take(60).collect::<String>()))).collect())),
                            ),
                        }
                    }
                }
            }
            return;
        }
        if i % 100 == 7 {
            self.typed_lists(acc, i, &mut r);
            return;
        }
        if i % cfg.tier.pick(1000, 400) == 57 {
            // very long replies (a big library) converted and walked on a thread with a SMALL stack (256 KiB, a quarter of
            // what a spawned thread gets by default): work proportional to the number of lines must not live on the stack
            let n = 20_000 + r.below(20_000);
            let key = *r.pick(&["Artist", "Album", "Title", "file", "changed", "sticker", "channel", "playlist", "directory", "tagtype", "x-unknown"]);
            let other = *r.pick(&["Album", "Date", "Last-Modified", "message", "Genre"]);
            let fields: Vec<(String, String)> = (0..n).map(|k| if k % 7_001 == 7_000 { kv(other, "2020-06-12T17:53:00Z") } else { kv(key, format!("v{}", if key == "sticker" { format!("a=b{}", k) } else { k.to_string() })) }).collect();
            let Ok(frame) = frame_of(&fields, None) else { return };
            acc.inc("long_replies_on_a_small_stack");
            let t = std::thread::Builder::new().stack_size(256 << 10).spawn(move || {
                let mut done = 0u64;
                for (_, conv) in converters() {
                    let _ = conv(frame.clone());
                    done += 1;
                }
                done
            });
            match t.map(|h| h.join()) {
                Ok(Ok(k)) => {
                    acc.count("evaluations", k);
                    acc.count("conversions", k);
                }
                Ok(Err(_)) => acc.violation(i, None, format!("panic while converting / walking a reply of {} `{}` lines on a small stack: {}", n, key, panics::take_last().unwrap_or_default()), J::obj().set("key", key).set("lines", n)),
                Err(e) => acc.inconclusive(format!("cannot spawn the small-stack thread: {}", e)),
            }
            return;
        }
        let convs = converters();
        let kind = KINDS[(i as usize) % KINDS.len()];
        let (mut fields, mut binary) = source(&mut r, kind);
        let muts = if i % 3 == 0 { 0 } else { mutate(&mut r, &mut fields) };
        if r.chance(1, 10) {
            binary = if binary.is_some() { None } else { Some(r.bytes(5)) };
        }
        // keys outside the protocol layer's alphabet: refused there, so no frame results
        if i % 50 == 11 && !fields.is_empty() {
            let p = r.below(fields.len());
            fields[p].0 = r.pick(&["Artist2", "x.y", "a b", "tag1", "é"]).to_string();
            if frame_of(&fields, binary.clone()).is_err() {
                acc.inc("wider_alphabet_keys_refused_by_protocol_layer");
                acc.inc("evaluations");
                return;
            }
            acc.inc("wider_alphabet_keys_accepted_by_protocol_layer");
        }
        let frame = match frame_of(&fields, binary.clone()) {
            Ok(f) => f,
            Err(e) => {
                acc.inc("source_not_parsed");
                let _ = e;
                return;
            }
        };
        acc.inc(&format!("sources_{}", kind));
        for (name, conv) in &convs {
            acc.inc("evaluations");
            acc.inc("conversions");
            let f = frame.clone();
            match panics::catch(|| conv(f)) {
                Ok(o) => acc.inc(&format!("outcome_{}", o)),
                Err(p) => {
                    acc.violation(
                        i,
                        None,
                        format!("{}::response (or reading its result) panicked on a {} reply{}: {}", name, kind, if muts > 0 { " (mutated)" } else { "" }, p.0),
                        J::obj().set("command", *name).set("reply_kind", kind).set("reply", J::Arr(fields.iter().map(|(k, v)| J::Str(format!("{}: {}", k, v))).collect())).set("binary", binary.as_ref().map(|b| b.len() as u64)),
                    );
                }
            }
            // non-trivial: the frame is not this command's own well-formed reply
            if muts > 0 || !name.to_ascii_lowercase().contains(&kind[..kind.len().min(4)]) {
                acc.distinct("nontrivial", mix(&[hash_bytes(name.as_bytes()), hash_bytes(format!("{:?}", fields).as_bytes())]));
            }
        }
        if acc.want_sample() && muts > 0 && fields.len() < 12 {
            acc.sample(i, J::obj().set("reply_kind", kind).set("mutations", muts).set("reply", J::Arr(fields.iter().map(|(k, v)| J::Str(format!("{}: {}", k, v))).collect())).set("converted_by", convs.len()));
        }
    }
    fn post(&self, cfg: &Cfg, acc: &mut Acc) {
        typed::chrono_stage(cfg, acc, self.hard_limit(cfg));
    }
    fn meta(&self, _cfg: &Cfg, _acc: &Acc) -> Meta {
        Meta {
            level: "exploration",
            rule: "directed grid: in a well-formed reply of each of 21 kinds every field in turn gets every value of the edge set (now ~115 entries incl. ranges whose end precedes their start and sticker values repeating the requested name without `=`, and 12 long values of 2-, 3- and 4-byte characters offset so that every usual cut-off length falls inside a character), once as is and once with every line of one other key (rotating; Time+duration together) taken out; random part: frames are produced by the real parser from 21 kinds of well-formed replies (status, stats, count, grouped count, list, grouped list, listplaylists, sticker get/list/find, channels, readmessages, tagtypes, update, replay gain, addid, database and queue listings, album art with binary, empty, idle) with 0-3 mutations (drop/duplicate/reorder fields, drop every line of one key, foreign keys, values from a 70-entry edge set: 2^64, 1e309, NaN, inf, negative, ranges, '=', RFC 3339 garbage, 300-digit numbers), binary toggled; EVERY one of the 66 predefined command/constructor families (plus seven of them again with request parameters at the top of their domain: ranges and windows up to usize::MAX, inverted ranges, offsets of usize::MAX) converts every frame under catch_unwind inside child processes and the result is walked (Debug, Clone, ==, every iterator and accessor of List/Song/Timestamp/sticker types, error Display/source chain); typed lists: tuples of every arity 1-8 and Vec lengths 0-5 against frame counts 0..=n+2; default and chrono build; non-trivial = (command, frame) pair where the frame is not the command's own unmutated reply; distinct by (command, frame fields)".into(),
            nontrivial_set: "nontrivial",
            assumptions: vec![
                "frames can only be made by the real parser, so field names outside its alphabet [A-Za-z_-] cannot reach the typed layer today; such replies are counted as refused by the protocol layer".into(),
                "abort containment: cases run in child processes with a write-ahead case id".into(),
            ],
            exhaustive: None,
            floors: vec![("edge_grid_frames".into(), 5_000), ("conversions".into(), 50_000), ("typed_list_conversions".into(), 100), ("outcome_err".into(), 1000), ("outcome_ok".into(), 1000), ("evaluations_chrono_build".into(), 1)],
            extra: vec![],
        }
    }
}
