//! C17 — album art is reassembled byte-exactly for any size and chunk limit.

use super::c01;
use super::sess;
use crate::refmodel::gen;
use crate::refmodel::tokenizer::tokenize;
use crate::sim::analysis::Analysis;
use crate::sim::scenario::ms;
use crate::sim::session::{Req, Scenario, Step};
use crate::sim::world::{ArtStore, CallResult, EvKind, SegPolicy};
use crate::util::acc::Acc;
use crate::util::json::J;
use crate::util::rng::{mix, Rng};
use crate::util::Cfg;
use crate::{Meta, Property};

pub struct C17;

const LIMITS: &[usize] = &[1, 2, 64, 4096, 8192];
const CODES: &[u64] = &[1, 2, 3, 4, 50, 52, 56];
const URIS: &[&str] = &["foo/bar.mp3", "dir with blanks/a b.flac", "Ünï/cödé.ogg", "x"];

fn sizes(limit: usize) -> Vec<usize> {
    let mut v = vec![0, 1, limit.saturating_sub(1), limit, limit + 1, 2 * limit, 3 * limit + 7, 5_000, 70_000];
    v.sort_unstable();
    v.dedup();
    v
}

/// Signatures of common image formats: the bytes of a picture say nothing about what the SERVER said its type is.
const MAGIC: &[&[u8]] = &[b"\x89PNG\r\n\x1a\n", b"\xff\xd8\xff\xe0", b"GIF89a", b"BM", b"RIFF\x24\x00\x00\x00WEBP", b"<svg", b"\x00\x00\x01\x00"];

fn picture(r: &mut Rng, n: usize) -> Vec<u8> {
    let mut p = picture_plain(r, n);
    if r.chance(1, 3) {
        let m = MAGIC[r.below(MAGIC.len())];
        let k = m.len().min(p.len());
        p[..k].copy_from_slice(&m[..k]);
    }
    p
}

fn picture_plain(r: &mut Rng, n: usize) -> Vec<u8> {
    if n > 200 && r.chance(1, 2) {
        let mut p = gen::gen_payload(r);
        p.resize(n, b'\n');
        // make every offset distinguishable
        for (i, b) in p.iter_mut().enumerate().skip(64) {
            *b = (*b).wrapping_add((i / 7) as u8);
        }
        p
    } else {
        let mut p = r.bytes(n);
        if n >= 8 {
            p[..3].copy_from_slice(b"OK\n");
        }
        p
    }
}

type Expect = Result<Option<(Vec<u8>, Option<String>)>, u64>;

/// The result and the request sequence the property prescribes for a given server.
fn expected(art: &ArtStore, uri: &str) -> (Expect, Vec<(String, String, usize)>) {
    let mut reqs = Vec::new();
    // returns the ACK code if the server refuses a continuation request
    let chunks = |cmd: &str, data: &Vec<u8>, reqs: &mut Vec<(String, String, usize)>| -> Option<u64> {
        let mut off = 0;
        loop {
            reqs.push((cmd.to_string(), uri.to_string(), off));
            if let Some((from, code)) = art.ack_from_offset {
                if off >= from && from > 0 {
                    return Some(code);
                }
            }
            off += art.chunk_len(off).min(data.len() - off);
            if off >= data.len() {
                break;
            }
        }
        None
    };
    // embedded first
    reqs.push(("readpicture".into(), uri.to_string(), 0));
    let mut fallback = false;
    if !art.readpicture_supported || art.embedded_ack == 5 {
        fallback = true;
    } else if art.embedded_ack != 0 {
        return (Err(art.embedded_ack), reqs);
    } else {
        match &art.embedded {
            None => fallback = true,
            Some((d, m)) => {
                reqs.pop();
                if let Some(code) = chunks("readpicture", d, &mut reqs) {
                    return (Err(code), reqs);
                }
                return (Ok(Some((d.clone(), m.clone()))), reqs);
            }
        }
    }
    debug_assert!(fallback);
    reqs.push(("albumart".into(), uri.to_string(), 0));
    if art.cover_ack != 0 {
        return (Err(art.cover_ack), reqs);
    }
    match &art.cover {
        None => (Ok(None), reqs),
        Some(d) => {
            reqs.pop();
            if let Some(code) = chunks("albumart", d, &mut reqs) {
                return (Err(code), reqs);
            }
            (Ok(Some((d.clone(), None))), reqs)
        }
    }
}

impl Property for C17 {
    fn id(&self) -> &'static str {
        "C17"
    }
    fn cases(&self, cfg: &Cfg) -> u64 {
        // directed grid (limits x sizes x sources x mime) + error codes + random
        let grid: usize = LIMITS.iter().map(|&l| sizes(l).len() * 2 * 2).sum();
        (grid + CODES.len() * 4 + 8) as u64 * cfg.tier.pick(2, 6) + cfg.tier.pick(1_000, 20_000)
    }
    fn run_case(&self, cfg: &Cfg, i: u64, acc: &mut Acc) {
        let mut r = Rng::keyed(&[cfg.seed, 17, i]);
        let grid: Vec<(usize, usize, bool, bool)> = LIMITS.iter().flat_map(|&l| sizes(l).into_iter().flat_map(move |s| [(l, s, true, true), (l, s, true, false), (l, s, false, true), (l, s, false, false)])).collect();
        let specials = CODES.len() * 4 + 8;
        let per_round = grid.len() + specials;
        let reps = cfg.tier.pick(2, 6) as usize;
        let uri = URIS[(i % URIS.len() as u64) as usize];
        let mut art = ArtStore { embedded: None, cover: None, limit: 64, readpicture_supported: true, embedded_ack: 0, cover_ack: 0, ack_after_partial_output: i % 2 == 1, ack_from_offset: None, later_chunks: Vec::new() };
        let k = (i as usize) % per_round;
        let mut class = String::new();
        if (i as usize) < per_round * reps {
            if k < grid.len() {
                let (limit, size, embedded, mime) = grid[k];
                // very large pictures with 1- or 2-byte chunks mean tens of thousands of requests: keep those to the thorough tier
                if size / limit > cfg.tier.pick(6_000, 80_000) {
                    acc.inc("skipped_too_many_chunks_for_tier");
                    return;
                }
                art.limit = limit;
                let pic = picture(&mut r, size);
                if embedded {
                    // (the MIME type may be an empty string: `type: ` is a well-formed line)
                    art.embedded = Some((pic, if mime { Some(if size % 2 == 1 { String::new() } else { "image/jpeg".to_string() }) } else { None }));
                    art.cover = Some(b"should not be used".to_vec());
                } else {
                    art.cover = Some(pic);
                    art.readpicture_supported = mime; // fall back via ACK 5 or via an empty reply
                }
                class = format!("limit={} size={} embedded={} mime={}", limit, size, embedded, mime);
            } else {
                let s = k - grid.len();
                if s < CODES.len() * 4 {
                    let code = CODES[s / 4];
                    match s % 4 {
                        0 => art.embedded_ack = code,
                        1 => {
                            art.cover_ack = code;
                        }
                        2 => {
                            art.readpicture_supported = false;
                            art.cover_ack = code;
                        }
                        _ => {
                            art.embedded_ack = 5;
                            art.cover_ack = code;
                        }
                    }
                    class = format!("ack code {} variant {}", code, s % 4);
                } else {
                    match s - CODES.len() * 4 {
                        0 => {} // neither has data
                        1 => art.readpicture_supported = false, // unknown + no cover
                        2 => art.embedded_ack = 5,
                        3 => {
                            art.cover_ack = 5; // albumart itself unknown
                        }
                        4 => {
                            art.embedded = Some((Vec::new(), Some("image/png".into()))); // zero-byte embedded picture
                        }
                        5 => {
                            art.cover = Some(Vec::new());
                        }
                        6 => {
                            art.embedded = Some((picture(&mut r, 100), None));
                            art.cover_ack = 50; // must not be asked at all
                        }
                        7 if i as usize >= per_round => {
                            // one picture well beyond 16 MiB with an 8 MiB chunk limit (thorough: also beyond 64 MiB)
                            let n = if cfg.tier == crate::util::Tier::Thorough && i as usize >= 2 * per_round { (64 << 20) + 77 } else { (17 << 20) + 5 };
                            let mut pic: Vec<u8> = (0..n).map(|k| (k as u32).wrapping_mul(2654435761).to_le_bytes()[1]).collect();
                            pic[..4].copy_from_slice(b"BIG!");
                            art.embedded = Some((pic, Some("image/x-huge".into())));
                            art.limit = 8 << 20;
                        }
                        _ => {
                            art.readpicture_supported = false;
                            art.cover = Some(picture(&mut r, 9000));
                            art.limit = 8192;
                        }
                    }
                    class = format!("special {}", s - CODES.len() * 4);
                }
            }
        } else {
            art.limit = *r.pick(&[1usize, 3, 64, 100, 4096, 8192, 10_000]);
            let size = match r.below(4) {
                0 => r.below(10),
                1 => r.range(art.limit.saturating_sub(2), art.limit + 2),
                _ => r.below(20_000),
            };
            if size / art.limit.max(1) > 5000 {
                art.limit = 64;
            }
            match r.below(3) {
                0 => art.embedded = Some((picture(&mut r, size), if r.chance(1, 2) { Some("image/webp".into()) } else { None })),
                1 => {
                    art.cover = Some(picture(&mut r, size));
                    art.readpicture_supported = r.chance(1, 2);
                }
                _ => {
                    art.cover = Some(picture(&mut r, size));
                    art.embedded_ack = 5;
                }
            }
            // the file vanishes or changes while it is being loaded: a later chunk request is answered with an ACK
            if size > art.limit && r.chance(1, 4) {
                let k = r.range(1, (size / art.limit).max(1));
                art.ack_from_offset = Some((k * art.limit, *r.pick(&[50u64, 52, 2, 56])));
                acc.inc("loads_with_a_refused_continuation_request");
            }
            // the chunks after the first one may be shorter than the limit (short reads by the server, a limit lowered by
            // another handle in the middle of the load)
            if art.ack_from_offset.is_none() && art.limit >= 3 && size > art.limit && r.chance(1, 3) {
                art.later_chunks = (0..r.range(1, 4)).map(|_| r.range(1, art.limit.min(64))).collect();
                if (size - art.limit) / art.later_chunks.iter().min().copied().unwrap_or(1).max(1) > 4000 {
                    art.later_chunks.clear();
                } else {
                    acc.inc("loads_with_shorter_later_chunks");
                }
            }
            class = format!("random limit={} size={} refused from {:?} later chunks {:?}", art.limit, size, art.ack_from_offset, art.later_chunks);
        }

        let mut sc = Scenario::new("album-art", mix(&[cfg.seed, 17, i]));
        sc.world.art = Some(art.clone());
        // In a third of the cases the same client has loaded (or tried to load) the art of OTHER songs before, with a
        // different outcome each: nothing learnt from one song may leak into the next load
        let mut steps = Vec::new();
        let mut earlier: Vec<(String, ArtStore)> = Vec::new();
        if i % 3 == 2 {
            for k in 0..r.range(1, 3) {
                let u = format!("earlier song {}/{}.mp3", k, r.below(1000));
                let mut a2 = ArtStore { embedded: None, cover: None, limit: art.limit, readpicture_supported: art.readpicture_supported, embedded_ack: 0, cover_ack: 0, ack_after_partial_output: false, ack_from_offset: None, later_chunks: Vec::new() };
                match r.below(5) {
                    0 => {} // neither has data
                    1 => a2.cover = Some(picture(&mut r, 10)),
                    2 => a2.embedded = Some((picture(&mut r, 10), Some("image/gif".into()))),
                    3 => a2.cover_ack = 50,
                    _ => a2.embedded_ack = 50,
                }
                steps.push(Step::Do(Req::AlbumArt { uri: u.clone() }));
                earlier.push((u, a2));
            }
            sc.world.art_by_uri = earlier.clone();
            acc.inc("loads_after_earlier_loads_of_other_songs");
        }
        steps.push(Step::Do(Req::AlbumArt { uri: uri.to_string() }));
        let main_seq = steps.len() - 1;
        sc.callers.push((ms(20), steps));
        let others = r.below(3);
        for o in 0..others {
            sc.callers.push((ms(20 + o as u64), vec![Step::Do(Req::Raw { shape: r.below(7) as u64 }), Step::Think(ms(r.below(120) as u64)), Step::Do(Req::Raw { shape: 1 })]));
        }
        if r.chance(1, 2) {
            sc.notifications = vec![(ms(20), vec!["player".into()]), (ms(25), vec!["mixer".into(), "options".into()])];
        }
        sc.world.seg = vec![[SegPolicy::Whole, SegPolicy::PerLine, SegPolicy::Random(4)][r.below(3)].clone()];
        sc.world.chunk_delay = vec![ms(r.below(2) as u64)];
        sc.world.read_cap = *r.pick(&[7usize, 4096, usize::MAX, usize::MAX]);
        let out = sess::run(&sc);
        acc.inc("evaluations");
        acc.inc("loads");
        if !sess::common_faultfree(acc, i, &sc, &out) {
            return;
        }
        for h in &out.hung {
            acc.violation(i, None, format!("{} never completed ({})", h, class), sess::detail(&sc, &out).set("class", class.clone()));
            return;
        }
        let a = Analysis::new(&out);
        c01::check(acc, i, &sc, &out, &a, true);
        let (want, want_reqs) = expected(&art, uri);
        // result
        // the earlier loads must be right as well
        for (k, (u, a2)) in earlier.iter().enumerate() {
            let (w, _) = expected(a2, u);
            let g = a.calls().into_iter().find(|c| c.call.caller == 0 && c.call.seq == k).and_then(|c| c.end.map(|e| e.2));
            let ok = match (&g, &w) {
                (Some(CallResult::Art(g)), Ok(w)) => g == w,
                (Some(CallResult::ErrResponse { error, .. }), Err(code)) => error.code == *code,
                _ => false,
            };
            if !ok {
                acc.violation(i, None, format!("earlier album_art({:?}) returned {} ({})", u, g.as_ref().map(|g| g.short()).unwrap_or_else(|| "nothing".into()), class), sess::detail(&sc, &out).set("class", class.clone()));
                return;
            }
        }
        let got = a.calls().into_iter().find(|c| c.call.caller == 0 && c.call.seq == main_seq).and_then(|c| c.end.map(|e| e.2));
        let ok = match (&got, &want) {
            (Some(CallResult::Art(g)), Ok(w)) => g == w,
            (Some(CallResult::ErrResponse { error, .. }), Err(code)) => error.code == *code,
            _ => false,
        };
        let describe = |x: &Expect| match x {
            Ok(Some((b, m))) => format!("Some({} bytes, mime {:?})", b.len(), m),
            Ok(None) => "None".to_string(),
            Err(c) => format!("error code {}", c),
        };
        if !ok {
            let first_diff = match (&got, &want) {
                (Some(CallResult::Art(Some((g, _)))), Ok(Some((w, _)))) => g.iter().zip(w.iter()).position(|(x, y)| x != y).map(|p| format!(", first differing byte at {}", p)).unwrap_or_else(|| format!(", lengths {} vs {}", g.len(), w.len())),
                _ => String::new(),
            };
            acc.violation(i, None, format!("album_art({:?}) returned {} but the server holds {}{} ({})", uri, got.as_ref().map(|g| g.short()).unwrap_or_else(|| "nothing".into()), describe(&want), first_diff, class), sess::detail(&sc, &out).set("class", class.clone()));
            return;
        }
        // requests: strictly increasing offsets from 0, documented fallback, finitely many
        let mut reqs: Vec<(String, String, usize)> = Vec::new();
        for e in a.log() {
            if let EvKind::ServerGot { line, .. } = &e.kind {
                if line.starts_with(b"readpicture") || line.starts_with(b"albumart") {
                    match tokenize(line) {
                        Ok((_, args)) if args.len() == 2 && earlier.iter().any(|(u, _)| u.as_bytes() == &args[0][..]) => {}
                        Ok((n, args)) if args.len() == 2 => reqs.push((String::from_utf8_lossy(&n).to_string(), String::from_utf8_lossy(&args[0]).to_string(), String::from_utf8_lossy(&args[1]).parse().unwrap_or(usize::MAX))),
                        other => {
                            acc.violation(i, None, format!("malformed art request {:?}: {:?}", String::from_utf8_lossy(line), other.map(|x| x.1.len())), sess::detail(&sc, &out));
                            return;
                        }
                    }
                }
            }
        }
        acc.count("chunks_fetched", reqs.len() as u64);
        // The prescribed sequence (offsets = cumulative chunk sizes) is what a client that never re-requests
        // sends; the property itself only demands: the documented command order, the URI verbatim, offsets
        // starting at 0, strictly increasing, never beyond what has been received, finitely many.
        let judge = |reqs: &[(String, String, usize)]| -> Result<(), String> {
            let cmds: Vec<&str> = reqs.iter().map(|r| r.0.as_str()).collect();
            let want_cmds: Vec<&str> = want_reqs.iter().map(|r| r.0.as_str()).collect();
            let mut dedup = cmds.clone();
            dedup.dedup();
            let mut want_dedup = want_cmds.clone();
            want_dedup.dedup();
            if dedup != want_dedup {
                return Err(format!("command order {:?}, prescribed {:?}", dedup, want_dedup));
            }
            if reqs.iter().any(|r| r.1 != uri) {
                return Err("a request carries a different URI".into());
            }
            for cmd in ["readpicture", "albumart"] {
                let offs: Vec<usize> = reqs.iter().filter(|r| r.0 == cmd).map(|r| r.2).collect();
                let want_offs: Vec<usize> = want_reqs.iter().filter(|r| r.0 == cmd).map(|r| r.2).collect();
                if offs.is_empty() != want_offs.is_empty() {
                    return Err(format!("{} requests: sent {}, prescribed {}", cmd, offs.len(), want_offs.len()));
                }
                if offs.is_empty() {
                    continue;
                }
                if offs[0] != 0 || offs.windows(2).any(|w| w[1] <= w[0]) {
                    return Err(format!("{} offsets are not strictly increasing from 0: {:?}", cmd, &offs[..offs.len().min(12)]));
                }
                // never ask beyond what the server has handed out so far (a gap would lose bytes)
                for (k, o) in offs.iter().enumerate() {
                    let received_before: usize = offs[..k].iter().map(|p| art.limit.max(1).min(usize::MAX - p)).sum();
                    if *o > received_before {
                        return Err(format!("{} offset {} skips bytes (only {} received before)", cmd, o, received_before));
                    }
                }
                if offs.len() > want_offs.len() * 2 + 2 {
                    return Err(format!("{} requests for a picture that needs {}", offs.len(), want_offs.len()));
                }
            }
            Ok(())
        };
        if reqs != want_reqs {
            acc.inc("request_sequences_differing_from_the_minimal_one");
        }
        if let Err(why) = judge(&reqs) {
            acc.violation(
                i,
                None,
                format!("art requests violate the request discipline: {} (sent {} requests, minimal sequence has {}; {})", why, reqs.len(), want_reqs.len(), class),
                sess::detail(&sc, &out).set("class", class.clone()).set("requests", J::Arr(reqs.iter().take(40).map(|(c, u, o)| J::Str(format!("{} {:?} {}", c, u, o))).collect())),
            );
            return;
        }
        acc.inc("loads_ok");
        match &want {
            Ok(Some(_)) => acc.inc("outcome_some"),
            Ok(None) => acc.inc("outcome_none"),
            Err(_) => acc.inc("outcome_error_propagated"),
        }
        if want_reqs.iter().any(|r| r.0 == "albumart") && want_reqs[0].0 == "readpicture" {
            acc.inc("fallbacks_taken");
        }
        if want_reqs.len() >= 2 && want_reqs.iter().filter(|r| r.0 == want_reqs[want_reqs.len() - 1].0).count() >= 2 {
            acc.distinct("nontrivial", mix(&[crate::util::rng::hash_bytes(class.as_bytes()), others as u64, !sc.notifications.is_empty() as u64]));
        }
        if acc.want_sample() && want_reqs.len() >= 3 && want_reqs.len() < 8 {
            acc.sample(i, J::obj().set("class", class).set("requests", J::Arr(want_reqs.iter().map(|(c, u, o)| J::Str(format!("{} {:?} {}", c, u, o))).collect())).set("result", describe(&want)).set("other_callers", others));
        }
    }
    fn meta(&self, _cfg: &Cfg, _acc: &Acc) -> Meta {
        Meta {
            level: "exploration",
            rule: "Client::album_art against the simulated server holding the picture: directed grid of chunk limits {1,2,64,4096,8192} x sizes {0,1,limit-1,limit,limit+1,2*limit,3*limit+7,5000,70000} x source {embedded, cover file reached through an empty readpicture reply or through ACK 5} x MIME present (incl. the empty string)/absent; a third of the pictures start with the signature of a common image format (the MIME type returned must still be exactly what the server said, or nothing); one picture of 17 MiB (thorough: 64 MiB) with an 8 MiB chunk limit; in a third of the cases the same client has first loaded the art of 1-2 OTHER songs with different outcomes (nothing, cover only, embedded, errors), whose results are checked too; a quarter of the random multi-chunk loads have a continuation request refused with an ACK, which must be propagated; a third of the others get later chunks shorter than the first one (1..limit bytes); every other ACK code {1,2,3,4,50,52,56} on either command (must propagate), neither source, zero-byte pictures, albumart unknown; plus random sizes/limits; payloads incl. protocol look-alikes; 0-2 other callers and notifications running concurrently, chopped replies, read caps; oracle: returned bytes and MIME equal the stored picture / None / the server's error code, and the request lines seen by the server are readpicture|albumart <uri> <offset> in the documented fallback order with offsets starting at 0, strictly increasing, never skipping bytes, finitely many (the minimal sequence 0, limit, 2*limit, ... is counted separately); non-trivial = load with >=2 chunks; distinct by (limit, size class, source, mime, concurrency)".into(),
            nontrivial_set: "nontrivial",
            assumptions: vec![
                "well-behaved server: never a 0-byte chunk before the end, constant `size`".into(),
                "absence of a source is an OK reply without binary part; an ACK (incl. MPD's 50 'No file exists') is an error to propagate unless it is code 5 from readpicture".into(),
            ],
            exhaustive: None,
            floors: vec![("loads_ok".into(), 150), ("fallbacks_taken".into(), 30), ("outcome_error_propagated".into(), 20), ("outcome_none".into(), 3), ("chunks_fetched".into(), 2000)],
            extra: vec![],
        }
    }
}
