//! C01 — every request is answered with its own reply, in issue order.

use std::collections::HashMap;

use super::sess::{self, Plan};
use crate::refmodel::wire::DFrame;
use crate::sim::analysis::Analysis;
use crate::sim::session::{Outcome, Req, Scenario, Step};
use crate::sim::typedlists;
use crate::sim::world::{vfail_error, vreq_reply, CallId, CallResult, EvKind};
use crate::util::acc::Acc;
use crate::util::json::J;
use crate::util::Cfg;
use crate::{Meta, Property};

pub struct C01;

pub fn requests_of(sc: &Scenario) -> HashMap<CallId, Req> {
    let mut m = HashMap::new();
    for (k, (_, script)) in sc.callers.iter().enumerate() {
        let mut seq = 0;
        for step in script {
            match step {
                Step::Think(_) => {}
                Step::Do(r) | Step::CancelAfter(_, r) => {
                    m.insert(CallId { caller: k, seq }, r.clone());
                    seq += 1;
                }
                Step::Pipelined(rs) => {
                    for r in rs {
                        m.insert(CallId { caller: k, seq }, r.clone());
                        seq += 1;
                    }
                }
            }
        }
    }
    m
}

/// What the server produces for this request: Ok(frames) or Err(error, frames before it).
pub fn expected_result(call: CallId, req: &Req) -> Option<CallResult> {
    let (k, n) = (call.caller as u64, call.seq as u64);
    match req {
        Req::Raw { shape } => Some(CallResult::Frames(vec![vreq_reply(k, n, 0, *shape).decoded()])),
        Req::RawList { n: len, fail_at, shape } => {
            let frame = |i: usize| -> DFrame { vreq_reply(k, n, i as u64, *shape + i as u64).decoded() };
            match fail_at {
                None => Some(CallResult::Frames((0..*len).map(frame).collect())),
                Some((f, code)) => Some(CallResult::ErrResponse { error: vfail_error(k, n, *f as u64, *code % 1000), frames: (0..*f).map(frame).collect() }),
            }
        }
        Req::TypedTuple { arity, rot, base } => Some(CallResult::Typed(typedlists::expected(*arity, *rot, &typedlists::toks(*base, *arity)))),
        Req::TypedVec { n, base } => Some(CallResult::Typed((0..*n as u64).map(|j| format!("update:{}", base + j)).collect())),
        Req::TypedUpdate { token } => Some(CallResult::Typed(vec![format!("update:{}", token)])),
        Req::TypedStatus | Req::AlbumArt { .. } | Req::TypedListing { .. } => None,
    }
}

fn brief(r: &CallResult) -> String {
    match r {
        CallResult::Frames(fs) => format!("ok {:?}", fs.iter().map(|f| f.fields.first().map(|x| x.1.clone()).unwrap_or_default()).collect::<Vec<_>>()),
        CallResult::ErrResponse { error, frames } => format!("ACK [{}@{}] {{{}}} {:?} after frames {:?}", error.code, error.index, error.command.clone().unwrap_or_default(), error.message, frames.iter().map(|f| f.fields.first().map(|x| x.1.clone()).unwrap_or_default()).collect::<Vec<_>>()),
        other => other.short(),
    }
}

/// The C01 oracle over one session. `allow_connection_errors`: fault sessions (C08) use the reply
/// check only for calls that ended Ok.
pub fn check(acc: &mut Acc, case: u64, sc: &Scenario, out: &Outcome, a: &Analysis<'_>, fault_free: bool) -> bool {
    let reqs = requests_of(sc);
    let mut ok = true;
    // Byte-identical requests are still separate requests: the simulated server numbers its `status` replies (the
    // playlist version is the count of `status` requests it has executed), so every successful `status` call must
    // carry a number no other call carries, increasing along each caller's own sequence.
    {
        let mut seen: std::collections::HashMap<String, CallId> = std::collections::HashMap::new();
        let mut last_of_caller: std::collections::HashMap<usize, u64> = std::collections::HashMap::new();
        let mut calls: Vec<_> = a.calls().into_iter().filter(|cv| matches!(reqs.get(&cv.call), Some(Req::TypedStatus))).collect();
        calls.sort_by_key(|cv| (cv.call.caller, cv.call.seq));
        for cv in calls {
            let Some((_, _, CallResult::Typed(v))) = &cv.end else { continue };
            let Some(serial) = v.first().and_then(|s| s.strip_prefix("status:")).and_then(|s| s.parse::<u64>().ok()) else { continue };
            acc.inc("identical_requests_checked");
            if let Some(other) = seen.insert(v[0].clone(), cv.call) {
                acc.violation(case, None, format!("calls c{}#{} and c{}#{} (both `status`) were handed the same reply (the server's {}th status reply): one of them did not get the reply to its own request", other.caller, other.seq, cv.call.caller, cv.call.seq, serial), sess::detail(sc, out));
                ok = false;
                break;
            }
            if let Some(prev) = last_of_caller.insert(cv.call.caller, serial) {
                if prev >= serial {
                    acc.violation(case, None, format!("caller {} issued two `status` requests one after another and got the server's reply #{} before #{}", cv.call.caller, prev, serial), sess::detail(sc, out));
                    ok = false;
                    break;
                }
            }
        }
    }
    for cv in a.calls() {
        let Some(req) = reqs.get(&cv.call) else { continue };
        let Some((_, _, result)) = &cv.end else { continue };
        acc.inc("calls_checked");
        let want = expected_result(cv.call, req);
        match (result, &want) {
            (CallResult::Panicked(m), _) => {
                acc.violation(case, None, format!("call c{}#{} panicked: {}", cv.call.caller, cv.call.seq, m), sess::detail(sc, out));
                ok = false;
            }
            (got, Some(w)) if got == w => {
                if matches!(got, CallResult::ErrResponse { .. }) {
                    acc.inc("list_failures_checked");
                }
            }
            (CallResult::ErrClosed | CallResult::ErrProtocol(_), _) if !fault_free => {}
            // requests whose reply the C01 table does not know (status counter, album art) are judged by their own property
            (CallResult::Typed(_) | CallResult::Art(_) | CallResult::ErrResponse { .. }, None) => {}
            (got, Some(w)) => {
                acc.violation(
                    case,
                    None,
                    format!("call c{}#{} ({}) resolved with {} but the server's reply to that request is {}", cv.call.caller, cv.call.seq, cv.desc, brief(got), brief(w)),
                    sess::detail(sc, out),
                );
                ok = false;
            }
            (got, None) => {
                if fault_free {
                    acc.violation(case, None, format!("call c{}#{} ({}) resolved with {}", cv.call.caller, cv.call.seq, cv.desc, got.short()), sess::detail(sc, out));
                    ok = false;
                }
            }
        }
    }
    // per-caller order at the server
    let mut last: HashMap<u64, (u64, u64)> = HashMap::new();
    for e in a.log() {
        if let EvKind::ServerGot { line, .. } = &e.kind {
            if line.starts_with(b"vreq ") || line.starts_with(b"v_fail ") {
                let toks: Vec<u64> = String::from_utf8_lossy(line).split(' ').skip(1).filter_map(|t| t.parse().ok()).collect();
                if toks.len() >= 2 {
                    let (k, n) = (toks[0], toks[1]);
                    let idx = if line.starts_with(b"vreq ") && toks.len() >= 4 { toks[3] } else { 0 };
                    if let Some((pn, pi)) = last.get(&k) {
                        // same request (list): inner index grows; otherwise the sequence number grows
                        let fine = n > *pn || (n == *pn && (idx > *pi || line.starts_with(b"v_fail ")));
                        if !fine {
                            acc.violation(case, None, format!("requests of caller {} reached the server out of issue order: #{} after #{}", k, n, pn), sess::detail(sc, out));
                            ok = false;
                        }
                    }
                    last.insert(k, (n, idx));
                    acc.inc("server_lines_ordered");
                }
            }
        }
    }
    ok
}

impl Property for C01 {
    fn id(&self) -> &'static str {
        "C01"
    }
    fn cases(&self, cfg: &Cfg) -> u64 {
        Plan::for_tier(cfg.tier, 3_000, 300_000).cases() + cfg.tier.pick(0, 320) + 48
    }
    fn run_case(&self, cfg: &Cfg, i: u64, acc: &mut Acc) {
        let plan = Plan::for_tier(cfg.tier, 3_000, 300_000);
        let planned = plan.cases();
        if i >= planned + cfg.tier.pick(0, 320) {
            // a server that REJECTS `idle` (it wants a password the application did not give): the ACK is the reply to
            // the idle exchange and must never be handed to a caller as the reply to its request, however the
            // request races with it
            let k = i - planned - cfg.tier.pick(0, 320);
            let mut sc = crate::sim::session::Scenario::new("idle-rejected-by-the-server", crate::util::rng::mix(&[cfg.seed, 0x1d1e, k]));
            sc.epilogue = false;
            sc.world.password = Some(("not given".into(), crate::sim::world::PasswordVerdict::Accept));
            sc.world.reply_delay = vec![std::time::Duration::from_millis([0u64, 5, 30, 30, 60, 200][(k % 6) as usize])];
            sc.world.c2s_latency = vec![std::time::Duration::from_millis(k / 6 % 2 * 3)];
            let t = [0u64, 1, 10, 29, 30, 31, 45, 100][(k / 6 % 8) as usize];
            sc.callers.push((std::time::Duration::from_millis(t), vec![crate::sim::session::Step::Do(crate::sim::session::Req::Raw { shape: 1 }), crate::sim::session::Step::Do(crate::sim::session::Req::RawList { n: 3, fail_at: None, shape: 0 })]));
            if k % 2 == 1 {
                sc.callers.push((std::time::Duration::from_millis(t + 1), vec![crate::sim::session::Step::Do(crate::sim::session::Req::Raw { shape: 2 })]));
            }
            let out = sess::run(&sc);
            acc.inc("evaluations");
            acc.inc("sessions_with_idle_rejected_by_the_server");
            for p in &out.panics {
                acc.violation(i, None, format!("panic: {}", p), sess::detail(&sc, &out));
            }
            for h in &out.hung {
                acc.violation(i, None, format!("{} never completed although the server answered everything it was sent", h), sess::detail(&sc, &out));
            }
            let a = Analysis::new(&out);
            for cv in a.calls() {
                acc.inc("calls_checked");
                match cv.end.as_ref().map(|e| &e.2) {
                    // the server's answer to the idle exchange
                    Some(CallResult::ErrResponse { error, .. }) if error.command.as_deref() == Some("idle") => {
                        acc.violation(i, None, format!("call c{}#{} ({}) was handed the server's reply to the IDLE exchange as the reply to its request: {}", cv.call.caller, cv.call.seq, cv.desc, brief(cv.end.as_ref().map(|e| &e.2).unwrap())), sess::detail(&sc, &out));
                    }
                    // a request that did reach this server is refused for lack of permission: its own reply
                    Some(CallResult::ErrResponse { error, .. }) if error.code == 4 => {}
                    Some(CallResult::ErrClosed) | Some(CallResult::ErrProtocol(_)) | None => {}
                    Some(other) => {
                        acc.violation(i, None, format!("call c{}#{} ({}) resolved with {} although this server refuses every request", cv.call.caller, cv.call.seq, cv.desc, brief(other)), sess::detail(&sc, &out));
                    }
                }
            }
            return;
        }
        if i >= planned {
            // real-time multi-thread variant: callers run on 4 worker threads, so requests are enqueued
            // through tokio's channel from truly parallel threads; wall clock is a watchdog only
            let mut r = crate::util::rng::Rng::keyed(&[cfg.seed, 0x3717, i]);
            let mut sc = crate::sim::session::Scenario::new("realtime-multithread", crate::util::rng::mix(&[cfg.seed, i]));
            sc.realtime = true;
            sc.epilogue = false;
            for k in 0..6u64 {
                let steps = (0..4)
                    .map(|j| {
                        if (k + j) % 3 == 0 {
                            crate::sim::session::Step::Do(crate::sim::session::Req::RawList { n: 3, fail_at: if j == 2 { Some((1, 50)) } else { None }, shape: (k + j) % 7 })
                        } else {
                            crate::sim::session::Step::Do(crate::sim::session::Req::Raw { shape: (k * 3 + j) % 7 })
                        }
                    })
                    .collect();
                sc.callers.push((std::time::Duration::from_millis(r.below(3) as u64), steps));
            }
            sc.notifications = vec![(std::time::Duration::from_millis(1), vec!["player".into()]), (std::time::Duration::from_millis(3), vec!["mixer".into()])];
            let out = sess::run(&sc);
            acc.inc("evaluations");
            acc.inc("realtime_multithread_sessions");
            if !out.hung.is_empty() {
                acc.inconclusive(format!("real-time session: {:?} not finished within the 30 s wall-clock limit", out.hung));
                return;
            }
            if !sess::common_faultfree(acc, i, &sc, &out) {
                return;
            }
            let a = Analysis::new(&out);
            acc.distinct("nontrivial", a.signature());
            check(acc, i, &sc, &out, &a, true);
            return;
        }
        let sc = plan.scenario(cfg, i);
        let out = sess::run(&sc);
        acc.inc("evaluations");
        acc.inc("sessions");
        if !sess::common_faultfree(acc, i, &sc, &out) {
            return;
        }
        let a = Analysis::new(&out);
        let cov = sess::cover(acc, &a);
        if cov.overlap {
            acc.distinct("nontrivial", a.signature());
        }
        for h in &out.hung {
            acc.violation(i, None, format!("{} never completed in a fault-free session (pending at the far virtual deadline)", h), sess::detail(&sc, &out));
        }
        let ok = check(acc, i, &sc, &out, &a, true);
        if ok && acc.want_sample() && cov.overlap && out.log.len() < 90 {
            acc.sample(i, J::obj().set("scenario", sc.name.clone()).set("log", J::Arr(out.render_log(90).into_iter().filter(|l| !l.contains("client read")).map(J::Str).collect())));
        }
    }
    fn meta(&self, cfg: &Cfg, _acc: &Acc) -> Meta {
        let mut floors = sess::coverage_floors(cfg.tier);
        floors.push(("calls_checked".into(), 5000));
        floors.push(("list_failures_checked".into(), 50));
        if cfg.tier == crate::util::Tier::Thorough {
            floors.push(("realtime_multithread_sessions".into(), 100));
        }
        Meta {
            level: "exploration",
            rule: "same session engine and scenarios as C05 (35 directed scenarios x variants + bounded-exhaustive timing grids (request at 50..70 ms x notification at 50..70 ms at 1 ms resolution x wire latency x idle-reply chopping; second request and notification at -5..+5 ms around the end of the re-idle window) x select! seeds + seeded random: 1-6 callers through client clones, raw commands and lists, pipelined futures, cancellation after 0..2D, typed tuples/vectors, replies 20 B - 9 KiB incl. binary and idle-look-alike replies, all segmentations, notifications racing with requests); every request carries a unique id (caller, seq) in its arguments and the simulated server's reply is a pure function of that id, recomputed by the checker: every resolved call must carry exactly its own reply (frames, field order, values, binary), a list failing at index f must give the server's ACK (code, index f, command, message) plus exactly the frames 0..f, the request lines of one caller must reach the server in issue order, nothing may hang, cancelled calls must not disturb the others; non-trivial = session with overlap (P1,P2,P6,P7,P9,P12); distinct by interleaving signature".into(),
            nontrivial_set: "nontrivial",
            assumptions: vec![
                "simulated server as in C05; a cancelled call may or may not reach the server".into(),
                "schedules of a cooperative single-threaded executor with seeded select!; plus real-time sessions on a 4-worker runtime (6 callers enqueueing from parallel threads), where wall clock is a watchdog only".into(),
            ],
            exhaustive: None,
            floors,
            extra: vec![],
        }
    }
}
