//! C06 — command arguments reach the server byte-for-byte (MPD tokenizer port as oracle).

use std::borrow::Cow;

use mpd_protocol::command::{Command, CommandList};

use crate::refmodel::tokenizer::{self, split_lines, tokenize, TokErr};
use crate::sim::capture::{AsyncCapture, SyncCapture};
use crate::util::acc::Acc;
use crate::util::json::J;
use crate::util::rng::{hash_bytes, Rng};
use crate::util::Cfg;
use crate::{Meta, Property};

pub struct C06;

/// One representative per character class that matters to either side (LF belongs to C07).
pub const CLASSES: &[(&str, &str)] = &[
    ("lower", "a"),
    ("upper", "Z"),
    ("digit", "0"),
    ("space", " "),
    ("tab", "\t"),
    ("cr", "\r"),
    ("ctl01", "\u{1}"),
    ("vt", "\u{b}"),
    ("ctl1f", "\u{1f}"),
    ("dquote", "\""),
    ("squote", "'"),
    ("backslash", "\\"),
    ("nul", "\0"),
    ("2byte", "é"),
    ("3byte", "€"),
    ("4byte", "😀"),
];

pub fn short_strings() -> Vec<String> {
    let mut out = vec![String::new()];
    for a in CLASSES {
        out.push(a.1.to_string());
    }
    for a in CLASSES {
        for b in CLASSES {
            out.push(format!("{}{}", a.1, b.1));
        }
    }
    for a in CLASSES {
        for b in CLASSES {
            for c in CLASSES {
                out.push(format!("{}{}{}", a.1, b.1, c.1));
            }
        }
    }
    out
}

fn escaped_like_library(arg: &str) -> Vec<u8> {
    // the failure mode of C06/unquoted-escape when only backslashes are involved
    let mut out = Vec::new();
    for b in arg.bytes() {
        if b == b'\\' || b == b'"' || b == b'\'' {
            out.push(b'\\');
        }
        out.push(b);
    }
    out
}

/// Known-finding classifier: input predicate + failure mode for a single argument sent alone.
fn classify_arg(arg: &str, got: &Result<(Vec<u8>, Vec<Vec<u8>>), TokErr>) -> Option<&'static str> {
    let b = arg.as_bytes();
    let has_nul = b.contains(&0);
    let has_blank = b.iter().any(|&c| c == b' ' || c == b'\t');
    let has_ctrl = b.iter().any(|&c| (1..=0x20).contains(&c) && c != b' ' && c != b'\t' && c != b'\n');
    let has_low = b.iter().any(|&c| c <= 0x20);
    let has_esc = b.iter().any(|&c| c == b'"' || c == b'\'' || c == b'\\');
    if has_nul {
        // line is a C string for the server: everything from the NUL on is lost
        return Some("C06/nul");
    }
    if b.is_empty() {
        return match got {
            Ok((_, a)) if a.is_empty() => Some("C06/empty"),
            _ => None,
        };
    }
    if has_ctrl && !has_blank {
        // sent unquoted: split at the control character, or stripped at the end of the line, or
        // (with quote characters) rejected
        return Some("C06/ctrl-unquoted");
    }
    if has_esc && !has_low {
        return match got {
            Err(TokErr::InvalidUnquotedChar) => Some("C06/unquoted-escape"),
            Ok((_, a)) if a.len() == 1 && a[0] == escaped_like_library(arg) => Some("C06/unquoted-escape"),
            _ => None,
        };
    }
    None
}

pub struct Checker {
    pub sync: SyncCapture,
    pub asyn: AsyncCapture,
}

impl Checker {
    pub fn new() -> Checker {
        Checker { sync: SyncCapture::new(usize::MAX), asyn: AsyncCapture::new(7) }
    }

    fn build(name: &str, args: &[String], kind: usize) -> Option<Command> {
        let mut c = Command::build(name).ok()?;
        for (i, a) in args.iter().enumerate() {
            let r = match (kind + i) % 5 {
                0 => c.add_argument(a.as_str()),
                1 => c.add_argument(a.clone()),
                2 => c.add_argument(Cow::Borrowed(a.as_str())),
                3 => c.add_argument(Cow::<str>::Owned(a.clone())),
                _ => c.add_argument(&a.clone()),
            };
            r.ok()?;
        }
        Some(c)
    }

    /// Returns Ok(()) if the command round-trips, otherwise the list of (signature?, description).
    pub fn check(&mut self, acc: &mut Acc, case: u64, name: &str, args: &[String], kind: usize) {
        let Some(cmd) = Self::build(name, args, kind) else {
            acc.inc("rejected_by_builder");
            return;
        };
        acc.inc("evaluations");
        acc.inc("commands_tokenised");
        let wire = self.sync.send(cmd.clone());
        // the async connection and the line inside a rendered list must put the same bytes on the wire
        if kind % 4 == 0 {
            let wire_async = self.asyn.send(cmd.clone());
            if wire_async != wire {
                acc.violation(case, None, "async send wrote different bytes than blocking send".to_string(), J::obj().set("blocking", J::bytes(&wire)).set("async", J::bytes(&wire_async)));
            }
            let list = CommandList::new(Command::new("ping")).command(cmd.clone());
            let lw = self.sync.send_list(list);
            let (lines, rest) = split_lines(&lw);
            let mut single = wire.clone();
            single.pop();
            if !rest.is_empty() || lines.len() != 4 || lines[2] != &single[..] {
                // (a line feed inside is C07's; here only the byte equality of the inner line)
                acc.violation(case, None, "line inside a rendered command list differs from the line sent alone".to_string(), J::obj().set("alone", J::bytes(&wire)).set("list", J::bytes(&lw)));
            }
        }
        let want_args: Vec<Vec<u8>> = args.iter().map(|a| a.as_bytes().to_vec()).collect();
        let (lines, rest) = split_lines(&wire);
        if lines.len() != 1 || !rest.is_empty() {
            acc.violation(case, None, format!("command does not occupy exactly one line: {:?}", String::from_utf8_lossy(&wire)), J::obj().set("wire", J::bytes(&wire)));
            return;
        }
        let got = tokenize(lines[0]);
        if got == Ok((name.as_bytes().to_vec(), want_args.clone())) {
            acc.inc("roundtrip_ok");
            return;
        }
        // --- failure: attribute it -------------------------------------------------------------
        let detail = |extra: &str| {
            J::obj()
                .set("name", name)
                .set("args", J::Arr(args.iter().map(|a| J::bytes(a.as_bytes())).collect()))
                .set("wire", J::bytes(&wire))
                .set("tokenizer_result", match &got {
                    Ok((n, a)) => J::obj().set("name", J::bytes(n)).set("args", J::Arr(a.iter().map(|x| J::bytes(x)).collect())),
                    Err(e) => J::Str(format!("error: {}", e.name())),
                })
                .set("note", extra)
        };
        // name class
        if name.starts_with('_') && args.is_empty() {
            if got == Err(TokErr::LetterExpected) {
                acc.violation(case, Some("C06/name-underscore-first"), format!("command name {:?} is accepted but MPD requires a letter first", name), detail(""));
            } else {
                acc.violation(case, None, format!("command name {:?}: unexpected tokenizer result", name), detail(""));
            }
            return;
        }
        let mut sigs: Vec<&'static str> = Vec::new();
        let mut neutral: Vec<String> = Vec::new();
        let mut any_bad = false;
        for a in args {
            let alone = self.sync.send(Self::build("cmd", std::slice::from_ref(a), 0).expect("argument was accepted before"));
            let (l, _) = split_lines(&alone);
            let g = if l.len() == 1 { tokenize(l[0]) } else { Err(TokErr::NoLineEnd) };
            if g == Ok((b"cmd".to_vec(), vec![a.as_bytes().to_vec()])) {
                neutral.push(a.clone());
            } else {
                any_bad = true;
                match classify_arg(a, &g) {
                    Some(s) => {
                        if !sigs.contains(&s) {
                            sigs.push(s);
                        }
                        neutral.push("x".to_string());
                    }
                    None => {
                        acc.violation(
                            case,
                            None,
                            format!("argument {:?} does not reach the server intact and matches no known-finding class: wire {:?} -> {:?}", a, String::from_utf8_lossy(&alone), g.as_ref().map(|(_, a)| a.iter().map(|x| String::from_utf8_lossy(x).to_string()).collect::<Vec<_>>()).map_err(|e| e.name())),
                            detail("argument fails alone, unclassified"),
                        );
                        return;
                    }
                }
            }
        }
        if !any_bad {
            acc.violation(case, None, format!("every argument round-trips alone but the command does not: {:?}", String::from_utf8_lossy(&wire)), detail("interaction between arguments"));
            return;
        }
        // with the attributed arguments neutralised the command must round-trip exactly
        let nw = self.sync.send(Self::build(name, &neutral, kind).expect("neutral arguments accepted"));
        let (l, _) = split_lines(&nw);
        let g = if l.len() == 1 { tokenize(l[0]) } else { Err(TokErr::NoLineEnd) };
        if g != Ok((name.as_bytes().to_vec(), neutral.iter().map(|a| a.as_bytes().to_vec()).collect())) {
            acc.violation(case, None, format!("command still fails after neutralising the arguments of known classes: {:?}", String::from_utf8_lossy(&nw)), detail("unattributed residue"));
            return;
        }
        for s in sigs {
            acc.violation(case, Some(s), format!("{}: args {:?} -> wire {:?}", s, args, String::from_utf8_lossy(&wire)), detail("attributed to a known-finding class"));
        }
    }
}

fn interesting(s: &str) -> bool {
    s.is_empty() || s.bytes().any(|b| b <= 0x20 || b == b'"' || b == b'\'' || b == b'\\' || b >= 0x80)
}

fn random_arg(r: &mut Rng) -> String {
    let n = match r.below(10) {
        0 => 0,
        1 => r.range(50, 200),
        _ => r.range(1, 12),
    };
    let mut s = String::new();
    for _ in 0..n {
        if r.chance(1, 2) {
            s.push((b'a' + r.below(26) as u8) as char);
        } else {
            s.push_str(CLASSES[r.below(CLASSES.len())].1);
        }
    }
    s
}

const BLOCK: u64 = 64;

impl Property for C06 {
    fn id(&self) -> &'static str {
        "C06"
    }
    fn selftest(&self) -> Result<(), String> {
        tokenizer::selftest()
    }
    fn cases(&self, cfg: &Cfg) -> u64 {
        // exhaustive part: 4369 strings in blocks of 64, names block, then random blocks
        let ex = (4369 + BLOCK - 1) / BLOCK;
        ex + 1 + cfg.tier.pick(3_000, 40_000)
    }
    fn run_case(&self, cfg: &Cfg, i: u64, acc: &mut Acc) {
        let mut ck = Checker::new();
        let ex = (4369 + BLOCK - 1) / BLOCK;
        if i < ex {
            let all = short_strings();
            let lo = (i * BLOCK) as usize;
            let hi = ((i + 1) * BLOCK as u64).min(all.len() as u64) as usize;
            for (k, s) in all[lo..hi].iter().enumerate() {
                let kind = lo + k;
                acc.inc("exhaustive_short_strings");
                if interesting(s) {
                    acc.distinct("nontrivial", hash_bytes(s.as_bytes()));
                }
                acc.distinct("arg_strings", hash_bytes(s.as_bytes()));
                // single, first/middle/last of three, after/before an empty argument
                ck.check(acc, i, "cmd", &[s.clone()], kind);
                ck.check(acc, i, "cmd", &[s.clone(), "x".into(), "y".into()], kind);
                ck.check(acc, i, "cmd", &["x".into(), s.clone(), "y".into()], kind);
                ck.check(acc, i, "cmd", &["x".into(), "y".into(), s.clone()], kind);
                ck.check(acc, i, "cmd", &[String::new(), s.clone()], kind);
                ck.check(acc, i, "cmd", &[s.clone(), String::new()], kind);
            }
            if acc.want_sample() && i % 9 == 4 {
                let s = &all[lo + 3];
                let w = ck.sync.send(Command::new("cmd").argument(s.as_str()));
                acc.sample(i, J::obj().set("arg", J::bytes(s.as_bytes())).set("wire", J::bytes(&w)).set("tokenised", format!("{:?}", tokenize(&w[..w.len() - 1]).map(|(n, a)| (String::from_utf8_lossy(&n).to_string(), a.iter().map(|x| String::from_utf8_lossy(x).to_string()).collect::<Vec<_>>())).map_err(|e| e.name()))));
            }
            return;
        }
        if i == ex {
            // names: every ASCII string of length <= 2 that build accepts, plus longer ones
            let mut names: Vec<String> = Vec::new();
            for a in 0u8..128 {
                names.push((a as char).to_string());
                for b in 0u8..128 {
                    names.push(format!("{}{}", a as char, b as char));
                }
            }
            for n in ["", "status", "_", "__", "_status", "status_", "a_b_c", "Z", "zz_", "playlistinfo", "PlayListInfo", "Status", "listAll", "PING", "x_Y", " status", "status ", "status\n", "\u{a0}status"] {
                names.push(n.to_string());
            }
            // non-ASCII characters inside a name: all of U+0080..U+07FF, then every 61st scalar value
            let mut cp = 0x80u32;
            while cp <= 0x10ffff {
                if let Some(ch) = char::from_u32(cp) {
                    names.push(format!("a{}b", ch));
                    acc.inc("non_ascii_names_tried");
                }
                cp += if cp < 0x800 { 1 } else { 61 };
            }
            for n in names {
                acc.inc("names_tried");
                if Command::build(&n).is_ok() {
                    acc.inc("names_accepted");
                    ck.check(acc, i, &n, &[], 1);
                    if !n.starts_with('_') {
                        ck.check(acc, i, &n, &["arg one".to_string()], 1);
                    }
                }
            }
            return;
        }
        // random commands
        let mut r = Rng::keyed(&[cfg.seed, 6, i]);
        for k in 0..BLOCK {
            let nargs = r.below(13);
            let args: Vec<String> = (0..nargs).map(|_| random_arg(&mut r)).collect();
            // stay below MPD's limits (not modelled)
            let total: usize = args.iter().map(|a| a.len() * 2 + 3).sum();
            if total > 3800 {
                continue;
            }
            for a in &args {
                if interesting(a) {
                    acc.distinct("nontrivial", hash_bytes(a.as_bytes()));
                }
                acc.distinct("arg_strings", hash_bytes(a.as_bytes()));
            }
            let name = if r.chance(1, 10) { "a_b" } else { "cmd" };
            acc.inc("random_commands");
            ck.check(acc, i, name, &args, k as usize);
        }
    }
    fn meta(&self, _cfg: &Cfg, _acc: &Acc) -> Meta {
        Meta {
            level: "exploration",
            rule: "EXHAUSTIVE: all 4369 strings of length <=3 over one representative per character class (lower, upper, digit, space, tab, CR, 0x01, 0x0B, 0x1F, double quote, single quote, backslash, NUL, 2/3/4-byte UTF-8), each as single argument, first/middle/last of three and before/after an empty argument, through &str/String/&String/Cow::Borrowed/Cow::Owned; all ASCII names of length <=2 accepted by build, names with a non-ASCII character (all of U+0080..U+07FF, every 61st scalar value above) in case build accepts one; plus random commands with 0-12 arguments of up to 200 bytes; the bytes written by Connection::send (and AsyncConnection::send with 7-byte write granularity, and the inner line of a rendered list) are tokenised by the MPD tokenizer port and must give back name and arguments byte for byte; failing commands are attributed argument by argument to known-finding classes (input predicate + failure mode) and must round-trip once those arguments are neutralised; non-trivial = argument containing a blank/control/quote/backslash/non-ASCII byte or empty; distinct by argument string".into(),
            nontrivial_set: "nontrivial",
            assumptions: vec![
                "MPD tokenizer port (util/Tokenizer.cxx + ClientRead line handling) is the trusted base; self-tested at start-up against the protocol document's escaping example".into(),
                "MPD's 16-argument and 4 KiB line limits are not modelled; generated lines stay below both".into(),
                "line feed in arguments is C07's subject".into(),
            ],
            exhaustive: Some(true),
            floors: vec![("exhaustive_short_strings".into(), 4369), ("names_accepted".into(), 50), ("roundtrip_ok".into(), 5000)],
            extra: vec![("exhaustive_scope".into(), J::Str("strings of length <=3 over the 16-class alphabet in 6 positions; ASCII names of length <=2; random part is sampled".into()))],
        }
    }
}
