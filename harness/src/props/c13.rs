//! C13 — command lists are framed as one batch and typed replies pair positionally.

use std::time::Duration;

use mpd_client::commands::{self as c, Command as TypedCommand, CommandList as TypedList};
use mpd_client::filter::Filter;
use mpd_client::tag::Tag;
use mpd_protocol::command::{Command as RawCommand, CommandList as RawCommandList};

use super::c01;
use super::sess;
use crate::refmodel::tokenizer::split_lines;
use crate::sim::analysis::{Analysis, UnitKind};
use crate::sim::capture::{AsyncCapture, SyncCapture};
use crate::sim::scenario::ms;
use crate::sim::session::{Req, Scenario, Step};
use crate::sim::typedlists;
use crate::sim::world::{CallResult, EvKind, SegPolicy};
use crate::util::acc::Acc;
use crate::util::json::J;
use crate::util::rng::{hash_bytes, mix, Rng};
use crate::util::Cfg;
use crate::{Meta, Property};

pub struct C13;

const ARGS: &[&str] = &["plain", "two words", "tab\there", "quo\"te and space", "Ünï cödé", "back\\slash and space", "x", "a b c d"];

fn gen_raw(r: &mut Rng) -> RawCommand {
    let mut c = RawCommand::new(*r.pick(&["ping", "status", "play", "find", "sticker"]));
    for _ in 0..r.below(4) {
        c = c.argument(*r.pick(ARGS));
    }
    // now and then a very long argument (a sticker value, a message, a URI): total line length around and well
    // beyond the usual buffer sizes
    if r.chance(1, 12) {
        let n = *r.pick(&[4070usize, 4080, 4090, 4096, 4100, 8192, 10_000, 70_000]) + r.below(8);
        c = c.argument("x".repeat(n));
    }
    c
}

/// The line a typed command of the tuple table renders to when sent alone.
fn expected_line(kind: usize, t: &typedlists::Tok, cap: &mut SyncCapture) -> Vec<u8> {
    let cmd = match kind {
        0 => c::Update::new().uri(&t.t).command(),
        1 => c::Add::uri(&t.t).command(),
        2 => c::StickerGet::new("u", &t.n).command(),
        3 => c::Count::new(Filter::tag(Tag::Artist, t.t.clone())).command(),
        4 => c::GetPlaylist(&t.p).command(),
        5 => c::Rescan::new().uri(&t.t).command(),
        6 => c::Status.command(),
        _ => c::Ping.command(),
    };
    let mut w = cap.send(cmd);
    w.pop();
    w
}

impl C13 {
    fn raw_framing(&self, acc: &mut Acc, i: u64, r: &mut Rng) {
        let mut cap = SyncCapture::new(usize::MAX);
        let mut acap = AsyncCapture::new(11);
        let n = match r.below(6) {
            0 => 1,
            1 => 2,
            2 => r.range(30, 50),
            _ => r.range(2, 12),
        };
        let cmds: Vec<RawCommand> = (0..n).map(|_| gen_raw(r)).collect();
        let singles: Vec<Vec<u8>> = cmds.iter().map(|c| cap.send(c.clone())).collect();
        // one case in four: earlier on this thread, requests on ANOTHER connection failed half-way through the write
        if r.chance(1, 4) {
            let other = RawCommandList::new(RawCommand::new("clear")).command(RawCommand::new("add").argument("left over.flac")).command(RawCommand::new("play"));
            let failed = crate::sim::capture::failed_sends_on_another_connection(r.below(30), RawCommand::new("stop").argument("left over"), other);
            if failed > 0 {
                acc.inc("lists_sent_after_a_failed_write_on_another_connection");
            }
        }
        // build through new / command / add / extend
        let mut list = RawCommandList::new(cmds[0].clone());
        let mut k = 1;
        while k < n {
            match r.below(3) {
                0 => {
                    list = list.command(cmds[k].clone());
                    k += 1;
                }
                1 => {
                    list.add(cmds[k].clone());
                    k += 1;
                }
                _ => {
                    // Extend from iterators of every kind: exact-size, without a useful size_hint (filter,
                    // flat_map, from_fn), chained, and empty ones
                    let m = r.range(1, (n - k).min(5));
                    let part: Vec<RawCommand> = cmds[k..k + m].to_vec();
                    match r.below(7) {
                        0 => list.extend(part.iter().cloned()),
                        1 => list.extend(part),
                        2 => {
                            acc.inc("extended_from_an_iterator_without_exact_size");
                            list.extend(part.into_iter().filter(|_| true))
                        }
                        3 => {
                            acc.inc("extended_from_an_iterator_without_exact_size");
                            list.extend(part.into_iter().flat_map(|c| std::iter::once(c)))
                        }
                        4 => {
                            acc.inc("extended_from_an_iterator_without_exact_size");
                            let mut it = part.into_iter();
                            list.extend(std::iter::from_fn(move || it.next()))
                        }
                        5 => {
                            let (a, b) = part.split_at(m / 2);
                            list.extend(a.iter().cloned().chain(b.iter().cloned()))
                        }
                        _ => {
                            list.extend(std::iter::empty::<RawCommand>());
                            acc.inc("extended_from_an_empty_iterator");
                            list.extend(part.into_iter().filter(|_| true));
                            list.extend(Vec::<RawCommand>::new());
                        }
                    }
                    k += m;
                }
            }
        }
        if n == 1 && r.chance(1, 2) {
            // a list of one command stays a list of one command when nothing is added to it
            list.extend(std::iter::empty::<RawCommand>());
            acc.inc("extended_from_an_empty_iterator");
        }
        acc.inc("evaluations");
        acc.inc("raw_lists_rendered");
        if list.len() != n {
            acc.violation(i, None, format!("CommandList::len() = {} after adding {} commands", list.len(), n), J::Null);
        }
        let mut want = Vec::new();
        if n >= 2 {
            want.extend_from_slice(b"command_list_ok_begin\n");
        }
        for s in &singles {
            want.extend_from_slice(s);
        }
        if n >= 2 {
            want.extend_from_slice(b"command_list_end\n");
        }
        let got = cap.send_list(list.clone());
        let got_async = acap.send_list(list);
        if n >= 2 {
            acc.distinct("nontrivial", hash_bytes(&want));
        }
        if got != want || got_async != want {
            acc.violation(
                i,
                None,
                format!("a list of {} commands is not framed as one batch of the individually rendered lines in order", n),
                J::obj().set("expected", J::bytes(&want)).set("blocking", J::bytes(&got)).set("async", J::bytes(&got_async)),
            );
        }
    }

    /// A list far beyond any buffer or server-side limit the library might know about (MPD's default
    /// `max_command_list_size` is 2 MiB): it is still ONE batch; whether the server accepts it is the server's business.
    fn huge_list(&self, acc: &mut Acc, i: u64, total_bytes: usize) {
        let mut cap = SyncCapture::new(usize::MAX);
        let mut acap = AsyncCapture::new(1 << 16);
        let mk = |k: usize| RawCommand::new("add").argument(format!("music/artist {}/album/track {:06}.flac", k % 97, k));
        let one = cap.send(mk(0)).len();
        let n = total_bytes / one + 1;
        let mut list = RawCommandList::new(mk(0));
        for k in 1..n {
            if k % 3 == 0 {
                list.add(mk(k));
            } else {
                list.extend(std::iter::once(mk(k)));
            }
        }
        let mut want = b"command_list_ok_begin\n".to_vec();
        for k in 0..n {
            want.extend_from_slice(format!("add \"music/artist {}/album/track {:06}.flac\"\n", k % 97, k).as_bytes());
        }
        want.extend_from_slice(b"command_list_end\n");
        acc.inc("evaluations");
        acc.inc("lists_larger_than_2_MiB");
        acc.count("bytes_of_the_largest_list", want.len() as u64);
        let got = cap.send_list(list.clone());
        let got_async = acap.send_list(list);
        for (name, g) in [("blocking", &got), ("async", &got_async)] {
            if g != &want {
                let begins = g.windows(22).filter(|w| w == b"command_list_ok_begin\n").count();
                let at = g.iter().zip(want.iter()).position(|(a, b)| a != b).unwrap_or(g.len().min(want.len()));
                acc.violation(i, None, format!("a list of {} commands ({} bytes) is not written as one batch on the {} connection: {} bytes written, {} begin markers, first difference at byte {}", n, want.len(), name, g.len(), begins, at), J::obj().set("around", J::bytes(&g[at.saturating_sub(60)..(at + 60).min(g.len())])));
                return;
            }
        }
    }

    fn typed_vec_offline(&self, acc: &mut Acc, i: u64) {
        // command_list() of vectors: None when empty, N commands otherwise
        let mut cap = SyncCapture::new(usize::MAX);
        for n in 0..=20usize {
            acc.inc("evaluations");
            let t = typedlists::toks(500, n);
            let v: Vec<c::Update<'_>> = t.iter().map(|t| c::Update::new().uri(&t.t)).collect();
            match v.command_list() {
                None => {
                    if n != 0 {
                        acc.violation(i, None, format!("Vec of {} commands yields no command list", n), J::Null);
                    }
                }
                Some(l) => {
                    if n == 0 {
                        acc.violation(i, None, "an empty Vec yields a command list".to_string(), J::Null);
                        continue;
                    }
                    let w = cap.send_list(l);
                    let (lines, _) = split_lines(&w);
                    let want: Vec<Vec<u8>> = t.iter().map(|t| format!("update {}", t.t).into_bytes()).collect();
                    let framed = n >= 2 && lines.len() >= 2 && lines[0] == b"command_list_ok_begin" && lines[lines.len() - 1] == b"command_list_end";
                    let inner: Vec<Vec<u8>> = if framed { lines[1..lines.len() - 1].iter().map(|l| l.to_vec()).collect() } else { lines.iter().map(|l| l.to_vec()).collect() };
                    if inner != want || framed != (n >= 2) {
                        acc.violation(i, None, format!("Vec command list of {} commands renders the wrong lines", n), J::obj().set("wire", J::bytes(&w)));
                    }
                }
            }
        }
    }

    /// "An empty typed list writes nothing and yields an empty result" has no exception for a connection that has
    /// already ended: nothing needs to be sent, so nothing can fail.
    fn empty_list_on_dead_connection(&self, acc: &mut Acc, i: u64, variant: u64, seed: u64) {
        let mut sc = Scenario::new("empty-list-after-the-connection-ended", mix(&[seed, 0x13e, i]));
        sc.epilogue = false;
        sc.world.fault = match variant % 2 {
            0 => crate::sim::world::Fault::ServerCloseAt(ms(5)),
            _ => crate::sim::world::Fault::ReadErrAfter(sc.world.greeting.len() as u64),
        };
        if variant > 2 {
            sc.notifications = vec![(ms(2), vec!["player".into()])];
        }
        sc.callers.push((ms(50), vec![Step::Do(Req::TypedVec { n: 0, base: 5 }), Step::Do(Req::Raw { shape: 1 }), Step::Do(Req::TypedVec { n: 0, base: 5 })]));
        let out = sess::run(&sc);
        acc.inc("evaluations");
        acc.inc("empty_lists_on_a_dead_connection");
        let a = Analysis::new(&out);
        if !out.panics.is_empty() || !out.hung.is_empty() {
            acc.violation(i, None, format!("panic or hang: {:?} {:?}", out.panics, out.hung), sess::detail(&sc, &out));
            return;
        }
        let calls = a.calls();
        let empties = calls.iter().filter(|c| c.call.caller == 0 && c.desc.contains("TypedVec") && matches!(&c.end, Some((_, _, CallResult::Typed(v))) if v.is_empty())).count();
        let wrote = a.units.iter().any(|u| matches!(u.kind, UnitKind::Single | UnitKind::List) && u.lines.iter().any(|l| !l.starts_with(b"vreq")));
        if empties != 2 || wrote {
            let got: Vec<String> = calls.iter().filter(|c| c.call.caller == 0).map(|c| format!("{} -> {}", c.desc, c.end.as_ref().map(|e| e.2.short()).unwrap_or_else(|| "pending".into()))).collect();
            acc.violation(i, None, format!("an empty typed list on a connection that had already ended did not yield an empty result (or wrote something): {:?}", got), sess::detail(&sc, &out));
        }
    }

    fn session_case(&self, acc: &mut Acc, i: u64, arity: usize, rot: usize, vec_len: Option<usize>, seed: u64) {
        let mut r = Rng::keyed(&[seed, 13, i]);
        let mut sc = Scenario::new("typed-lists", mix(&[seed, i]));
        let base = 100 + r.below(800) as u64;
        let req = match vec_len {
            Some(n) => Req::TypedVec { n, base },
            None => Req::TypedTuple { arity, rot, base },
        };
        // every third session: a request abandoned by its caller (queued / in flight) right before the list
        let mut first = Vec::new();
        if i % 3 == 2 {
            first.push(Step::CancelAfter(ms(r.below(4) as u64), Req::Raw { shape: r.below(7) as u64 }));
        }
        first.extend([Step::Do(req.clone()), Step::Think(ms(r.below(150) as u64)), Step::Do(req.clone())]);
        sc.callers.push((ms(20), first));
        // one concurrent caller
        sc.callers.push((ms(20 + r.below(3) as u64), vec![Step::Do(Req::Raw { shape: r.below(7) as u64 }), Step::Do(Req::TypedUpdate { token: 7 })]));
        sc.world.seg = vec![[SegPolicy::Whole, SegPolicy::PerLine, SegPolicy::PerByte, SegPolicy::Random(5)][r.below(4)].clone()];
        sc.world.chunk_delay = vec![ms(r.below(3) as u64)];
        sc.world.reply_delay = vec![ms(r.below(4) as u64)];
        sc.world.read_cap = *r.pick(&[1usize, 7, usize::MAX]);
        if r.chance(1, 3) {
            sc.notifications = vec![(ms(21), vec!["player".into()])];
        }
        let out = sess::run(&sc);
        acc.inc("evaluations");
        acc.inc("typed_list_sessions");
        if !sess::common_faultfree(acc, i, &sc, &out) {
            return;
        }
        for h in &out.hung {
            acc.violation(i, None, format!("{} never completed", h), sess::detail(&sc, &out));
        }
        let a = Analysis::new(&out);
        // pairing: result i carries token i (C01's expected_result knows the table)
        if !c01::check(acc, i, &sc, &out, &a, true) {
            return;
        }
        let n = vec_len.unwrap_or(arity);
        acc.count("positions_checked", 2 * n as u64);
        if n >= 2 {
            acc.distinct("nontrivial", mix(&[n as u64, rot as u64, vec_len.is_some() as u64, base]));
        }
        acc.inc(&format!("{}_{}", if vec_len.is_some() { "vec_len" } else { "tuple_arity" }, n));
        // wire: the request units of caller 0
        let mut cap = SyncCapture::new(usize::MAX);
        let toks = typedlists::toks(base, n);
        let want_lines: Vec<Vec<u8>> = (0..n).map(|j| if vec_len.is_some() { format!("update {}", toks[j].t).into_bytes() } else { expected_line((j + rot) % 8, &toks[j], &mut cap) }).collect();
        let marker = want_lines.first().cloned();
        let mut found = 0;
        for u in &a.units {
            if !matches!(u.kind, UnitKind::Single | UnitKind::List) {
                continue;
            }
            let inner: Vec<Vec<u8>> = if u.kind == UnitKind::List && u.lines.len() >= 2 { u.lines[1..u.lines.len() - 1].to_vec() } else { u.lines.clone() };
            if marker.is_some() && inner.first() == marker.as_ref() && (inner.len() == n) {
                found += 1;
                let ok = inner == want_lines && ((n == 1 && u.kind == UnitKind::Single) || (n >= 2 && u.kind == UnitKind::List && u.lines[0] == b"command_list_ok_begin" && u.lines.last().map(|l| l.as_slice()) == Some(b"command_list_end" as &[u8])));
                if !ok {
                    acc.violation(i, None, format!("typed list of {} commands was not written as one batch of its command lines in order (bare line for one command)", n), sess::detail(&sc, &out).set("expected_lines", J::Arr(want_lines.iter().map(|l| J::bytes(l)).collect())));
                    return;
                }
            }
        }
        if n == 0 {
            // an empty typed list writes nothing and yields an empty result
            let wrote_any = a.units.iter().any(|u| u.lines.iter().any(|l| l.starts_with(b"update t5") || l.is_empty()));
            let empties = a.calls().iter().filter(|c| c.call.caller == 0 && matches!(&c.end, Some((_, _, CallResult::Typed(v))) if v.is_empty())).count();
            if wrote_any || empties != 2 {
                acc.violation(i, None, "an empty typed list wrote something or did not yield an empty result".to_string(), sess::detail(&sc, &out));
            }
            acc.inc("empty_typed_lists");
        } else if found != 2 {
            acc.violation(i, None, format!("expected 2 request units for the typed list, found {}", found), sess::detail(&sc, &out).set("expected_lines", J::Arr(want_lines.iter().map(|l| J::bytes(l)).collect())));
        }
        let _ = (EvKind::EventEnd, Duration::ZERO);
        if acc.want_sample() && n >= 3 && out.log.len() < 120 {
            acc.sample(i, J::obj().set("arity", n).set("rotation", rot).set("lines", J::Arr(want_lines.iter().map(|l| J::bytes(l)).collect())).set("decoded", format!("{:?}", a.calls().first().and_then(|c| c.end.clone()).map(|e| e.2.short()))));
        }
    }
}

impl Property for C13 {
    fn id(&self) -> &'static str {
        "C13"
    }
    fn cases(&self, cfg: &Cfg) -> u64 {
        // 64 tuple shapes + 21 vector lengths (x repetitions), offline raw framing
        (64 + 21) * cfg.tier.pick(4, 20) + 5 + cfg.tier.pick(2, 4) + cfg.tier.pick(2_000, 40_000)
    }
    fn run_case(&self, cfg: &Cfg, i: u64, acc: &mut Acc) {
        let reps = cfg.tier.pick(4, 20);
        let sess_cases = (64 + 21) * reps;
        if i < sess_cases {
            let k = i % 85;
            if k < 64 {
                self.session_case(acc, i, (k / 8 + 1) as usize, (k % 8) as usize, None, cfg.seed);
            } else {
                // (two of the repetitions of the longest vector are replaced by really long lists: hundreds / thousands of
                // commands in one batch, as many frames in one reply)
                let n = match (k, i / 85) {
                    (84, 1) => 1500,
                    (84, 2) => 300,
                    _ => (k - 64) as usize,
                };
                self.session_case(acc, i, 0, 0, Some(n), cfg.seed);
            }
            return;
        }
        if i == sess_cases {
            self.typed_vec_offline(acc, i);
            return;
        }
        if i > sess_cases && i <= sess_cases + 4 {
            self.empty_list_on_dead_connection(acc, i, i - sess_cases, cfg.seed);
            return;
        }
        let huge = cfg.tier.pick(2, 4);
        if i > sess_cases + 4 && i <= sess_cases + 4 + huge {
            let sizes = [(2usize << 20) + 4096, 3 << 20, 9 << 20, 33 << 20];
            self.huge_list(acc, i, sizes[(i - sess_cases - 5) as usize]);
            return;
        }
        let mut r = Rng::keyed(&[cfg.seed, 13, i]);
        self.raw_framing(acc, i, &mut r);
    }
    fn meta(&self, _cfg: &Cfg, _acc: &Acc) -> Meta {
        Meta {
            level: "exploration",
            rule: "(i) framing: raw lists of 1-50 commands with arguments needing quotes and, in one command of twelve, a 4-70 KB argument, built through new/command/add/extend (Extend from exact-size, filter / flat_map / from_fn, chained and empty iterators), one case in four after requests on another connection of the same thread failed half-way through their write, must render (blocking and async connection) to exactly command_list_ok_begin + the individually rendered lines in order + command_list_end, a list of one command to the bare line; lists of 2-3 MiB (thorough: up to 33 MiB) of command lines are still one begin...end block; Vec command lists of length 0-20: None when empty; an empty typed list issued after the connection has ended (clean close / read error) still yields an empty result and writes nothing; (ii) pairing, EXHAUSTIVE over tuple arities 1-8 x all 8 rotations of 8 distinguishable command types (update, addid, sticker get, count, listplaylistinfo, rescan, status, ping) and Vec lengths 0-20 (plus 300 and 1500): executed through Client::command_list in sessions against the simulated server whose reply to each command carries a token derived from the command's own argument, with chopped replies, read caps, a concurrent caller and notifications; result i must carry token i (a misplaced frame of another type fails conversion), the request must have been written as one batch / bare line / nothing for the empty list; non-trivial = list with >=2 commands with pairwise distinct tokens; distinct by (shape, tokens)".into(),
            nontrivial_set: "nontrivial",
            assumptions: vec!["simulated server (token replies) as in C01".into(), "the individual rendering of each command is C15's subject".into()],
            exhaustive: Some(true),
            floors: vec![
                ("raw_lists_rendered".into(), 300),
                ("lists_larger_than_2_MiB".into(), 2),
                ("extended_from_an_iterator_without_exact_size".into(), 50),
                ("extended_from_an_empty_iterator".into(), 20),
                ("lists_sent_after_a_failed_write_on_another_connection".into(), 50),
                ("typed_list_sessions".into(), 85),
                ("tuple_arity_8".into(), 8),
                ("tuple_arity_1".into(), 8),
                ("vec_len_20".into(), 1),
                ("empty_typed_lists".into(), 1),
                ("positions_checked".into(), 500),
            ],
            extra: vec![("exhaustive_scope".into(), J::Str("tuple arities x rotations and vector lengths; raw lists sampled".into()))],
        }
    }
}
