//! Shared pieces of the session properties: case planning, replay detail, common checks.

use std::time::Duration;

use crate::sim::analysis::{count_coverage, coverage, Analysis, Coverage};
use crate::sim::scenario;
use crate::sim::session::{run_session, Outcome, Scenario};
use crate::util::acc::Acc;
use crate::util::json::J;
use crate::util::{Cfg, Tier};

pub fn d_hook() -> Duration {
    crate::sim::session::reidle_delay()
}

/// Case plan shared by C01/C04/C05: directed scenarios x variants first, then random ones.
pub struct Plan {
    pub directed_variants: u64,
    /// number of select! seeds per point of the timing grids
    pub grid_seeds: u64,
    pub random: u64,
}

impl Plan {
    pub fn for_tier(t: Tier, random_quick: u64, random_thorough: u64) -> Plan {
        Plan { directed_variants: t.pick(4, 50), grid_seeds: t.pick(1, 8), random: t.pick(random_quick, random_thorough) }
    }
    pub fn cases(&self) -> u64 {
        scenario::NUM_DIRECTED * self.directed_variants + scenario::NUM_GRID * self.grid_seeds + self.random
    }
    pub fn scenario(&self, cfg: &Cfg, i: u64) -> Scenario {
        let d = d_hook();
        let nd = scenario::NUM_DIRECTED * self.directed_variants;
        if i < nd {
            let mut s = scenario::directed(i % scenario::NUM_DIRECTED, i / scenario::NUM_DIRECTED + cfg.seed * 1000, d);
            s.rt_seed = crate::util::rng::mix(&[cfg.seed, i]);
            s
        } else if i < nd + scenario::NUM_GRID * self.grid_seeds {
            let k = i - nd;
            let mut s = scenario::grid(k % scenario::NUM_GRID, d);
            s.rt_seed = crate::util::rng::mix(&[cfg.seed, 0x671d, k]);
            s
        } else {
            scenario::random(crate::util::rng::mix(&[cfg.seed, 0xabc, i]), d)
        }
    }
}

pub fn detail(sc: &Scenario, out: &Outcome) -> J {
    J::obj()
        .set("scenario", sc.name.clone())
        .set("scenario_debug", format!("{:?}", sc).chars().take(3000).collect::<String>())
        .set("hung", out.hung.clone())
        .set("panics", out.panics.clone())
        .set("log", J::Arr(out.render_log(400).into_iter().map(J::Str).collect()))
}

/// Things that are wrong in any fault-free session regardless of the property examined.
pub fn common_faultfree(acc: &mut Acc, case: u64, sc: &Scenario, out: &Outcome) -> bool {
    let mut ok = true;
    for p in &out.panics {
        acc.violation(case, None, format!("panic during a session: {}", p), detail(sc, out));
        ok = false;
    }
    match &out.connect {
        Some(Ok(v)) => {
            // the version the greeting announced, verbatim (C18; every session checks it because the simulated servers
            // announce versions of many shapes)
            let g = &sc.world.greeting;
            if g.starts_with(b"OK MPD ") && g.ends_with(b"\n") && v.as_bytes() != &g[7..g.len() - 1] {
                acc.violation(case, None, format!("protocol_version() is {:?} but the greeting announced {:?}", v, String::from_utf8_lossy(&g[7..g.len() - 1])), detail(sc, out));
                ok = false;
            }
        }
        other => {
            acc.violation(case, None, format!("connect failed in a fault-free session: {:?}", other), detail(sc, out));
            ok = false;
        }
    }
    ok
}

pub fn run(sc: &Scenario) -> Outcome {
    let out = run_session(sc);
    if std::env::var("VERIF_DUMP_LOG").is_ok() {
        eprintln!("=== scenario {:?}", sc);
        for e in &out.log {
            if !matches!(e.kind, crate::sim::world::EvKind::ClientRead { .. }) || std::env::var("VERIF_DUMP_READS").is_ok() {
                eprintln!("{}", e.render());
            }
        }
        eprintln!("=== hung {:?} panics {:?} phase_after_quiet {:?} probe {:?}", out.hung, out.panics, out.phase_after_quiet, out.epilogue_probe_delivered);
    }
    out
}

pub fn cover(acc: &mut Acc, a: &Analysis<'_>) -> Coverage {
    let c = coverage(a);
    count_coverage(acc, &c);
    c
}

pub fn coverage_floors(tier: Tier) -> Vec<(String, u64)> {
    let m = tier.pick(1, 5);
    vec![
        ("P1_request_during_partly_delivered_idle_reply".into(), 3 * m),
        ("P2_noidle_received_while_server_not_idle".into(), 3 * m),
        ("P3_next_request_inside_reidle_window".into(), 10 * m),
        ("P4_request_after_window_idle_noidle_request".into(), 10 * m),
        ("P6_requests_queued_behind_inflight_from_2_callers".into(), 10 * m),
        ("P7_caller_cancelled".into(), 5 * m),
        ("P8_reply_with_2plus_changed_lines".into(), 5 * m),
        ("P8_unknown_subsystem_name".into(), 3 * m),
        ("P9_change_while_not_idle".into(), 5 * m),
        ("P10_list_failure".into(), 5 * m),
        ("P11_reply_over_4096_bytes".into(), 5 * m),
        ("P12_call_at_instant_of_idle_reply_delivery".into(), 2 * m),
    ]
}
