//! C18 — handshake: greeting accepted iff valid, password sent before anything else.

use std::time::Duration;

use super::c05;
use super::sess;
use crate::refmodel::tokenizer::tokenize;
use crate::refmodel::wire::{reference_greeting, DFrame, DResponse, Item, RefGreeting};
use crate::sim::analysis::{Analysis, UnitKind};
use crate::sim::scenario::ms;
use crate::sim::session::{ConnectKind, Req, Scenario, Step};
use crate::sim::wirerun::{run, Flavour, RunSpec, Seg, StreamEnd};
use crate::sim::world::{EvKind, Fault, PasswordVerdict, SegPolicy};
use crate::util::acc::Acc;
use crate::util::json::J;
use crate::util::rng::{hash_bytes, mix, Rng};
use crate::util::Cfg;
use crate::{Meta, Property};

pub struct C18;

fn gen_greeting(r: &mut Rng, i: u64) -> Vec<u8> {
    const P: &[u8] = b"OK MPD ";
    let version = |r: &mut Rng| -> Vec<u8> {
        match r.below(14) {
            12 | 13 => {
                // dotted numbers with one to four components, leading zeros allowed (verbatim means verbatim)
                let n = r.range(1, 4);
                let mut v = Vec::new();
                for k in 0..n {
                    if k > 0 {
                        v.push(b'.');
                    }
                    let parts: [&[u8]; 8] = [b"0", b"1", b"24", b"05", b"23", b"007", b"100", b"4294967296"];
                    v.extend_from_slice(parts[r.below(parts.len())]);
                }
                v
            }
            0 => b"0.23.5".to_vec(),
            1 => b"0".to_vec(),
            2 => b" ".to_vec(),
            3 => b"0.24~git (abc) \t".to_vec(),
            4 => "0.23.5-ünï €".as_bytes().to_vec(),
            5 => b"0.23.5\r".to_vec(),
            6 => b"\0".to_vec(),
            7 => b"OK MPD 0.1".to_vec(),
            8 => {
                let n = r.range(4000, 9000);
                (0..n).map(|k| b"0123456789."[k % 11]).collect()
            }
            9 => b"OK".to_vec(),
            _ => {
                let n = r.range(1, 20);
                (0..n).map(|_| *r.pick(b"0123456789.abcXYZ -_~()")).collect()
            }
        }
    };
    match i % 10 {
        0..=3 => {
            let mut g = P.to_vec();
            g.extend(version(r));
            g.push(b'\n');
            g
        }
        4 => {
            // wrong prefix: differs at one position
            let mut g = P.to_vec();
            let p = r.below(g.len());
            g[p] = *r.pick(b"okmpd xXO0\t");
            g.extend(version(r));
            g.push(b'\n');
            g
        }
        5 => {
            // empty version / missing blank
            r.pick(&[&b"OK MPD \n"[..], b"OK MPD\n", b"OK\n", b"\n", b"OK MPD  \n", b"OKMPD 1\n", b"ACK [5@0] {} no\n", b"ok mpd 0.23.5\n"]).to_vec()
        }
        6 => {
            // invalid UTF-8 in the version
            let mut g = P.to_vec();
            g.extend_from_slice(b"0.2");
            let bad: [&[u8]; 5] = [b"\xff", b"\xc3", b"\xed\xa0\x80", b"\xc0\xaf", b"\xf8\x88\x80\x80\x80"];
            g.extend_from_slice(bad[r.below(bad.len())]);
            g.extend_from_slice(b"3\n");
            g
        }
        7 => {
            // stream ends before the line end (valid or invalid prefix)
            let mut g = P.to_vec();
            g.extend(version(r));
            g.push(b'\n');
            let cut = r.below(g.len());
            g.truncate(cut);
            g
        }
        8 => {
            let mut g = r.pick(&[&b"foo"[..], b"OK MPX", b"O", b"", b"ACK", b"OK MPD", b"OK MPD 0.23.5"]).to_vec();
            if r.chance(1, 3) {
                g.push(b'\n');
            }
            g
        }
        _ => {
            let n = r.below(40);
            let mut g = r.bytes(n);
            if r.chance(1, 2) {
                g.push(b'\n');
            }
            g
        }
    }
}

impl C18 {
    fn greeting_case(&self, cfg: &Cfg, i: u64, acc: &mut Acc) {
        let mut r = Rng::keyed(&[cfg.seed, 18, i]);
        let g = gen_greeting(&mut r, i);
        let (reference, used) = reference_greeting(&g);
        acc.inc("greetings");
        acc.inc(match &reference {
            RefGreeting::Ok(_) => "greetings_valid",
            RefGreeting::Invalid => "greetings_invalid",
            RefGreeting::Eof => "greetings_cut_before_line_end",
            RefGreeting::EofOrInvalid => "greetings_cut_and_already_invalid",
        });
        // a valid greeting is followed by one empty response to show the connection is usable
        let valid = matches!(reference, RefGreeting::Ok(_));
        let body: &[u8] = if valid { b"OK\n" } else { b"" };
        let glen = g.len();
        let mut segs = vec![Seg::Whole, Seg::Bytewise];
        if glen >= 2 {
            if glen <= 64 {
                segs.extend((1..glen).map(|c| Seg::Cuts(vec![c])));
                acc.inc("greetings_all_2way_splits");
            } else {
                for _ in 0..24 {
                    segs.push(Seg::Cuts(vec![r.range(1, glen - 1)]));
                }
                for c in [1usize, 2, 6, 7, 8, glen - 2, glen - 1, 4095.min(glen - 1), 4096.min(glen - 1), 4097.min(glen - 1), 8192.min(glen - 1)] {
                    segs.push(Seg::Cuts(vec![c.max(1)]));
                }
            }
            for _ in 0..4 {
                segs.push(Seg::random(&mut r, glen, 8));
            }
        }
        let _ = used;
        for (k, seg) in segs.iter().enumerate() {
            for flavour in [Flavour::Sync, Flavour::Async] {
                // the greeting is segmented: feed it as body of an empty greeting, plus a forced boundary after it
                let mut stream = g.clone();
                stream.extend_from_slice(body);
                let seg2 = match seg {
                    Seg::Whole => {
                        if valid {
                            Seg::Cuts(vec![glen])
                        } else {
                            Seg::Whole
                        }
                    }
                    Seg::Bytewise => Seg::Bytewise,
                    Seg::Cuts(c) => {
                        let mut c = c.clone();
                        if valid {
                            c.push(glen);
                        }
                        c.sort_unstable();
                        c.dedup();
                        c.retain(|&x| x > 0 && x < stream.len());
                        if c.is_empty() {
                            Seg::Whole
                        } else {
                            Seg::Cuts(c)
                        }
                    }
                };
                let spec = RunSpec { greeting: b"", body: &stream, seg: &seg2, end: StreamEnd::Eof, flavour, pending_p: if k % 3 == 2 { 40 } else { 0 }, pending_seed: mix(&[cfg.seed, i, k as u64]), max_responses: 8, keep_alive: false };
                let out = run(&spec);
                acc.inc("evaluations");
                if glen >= 2 && seg2.chunks(stream.len()) >= 2 {
                    acc.distinct("nontrivial", mix(&[hash_bytes(&g), seg2.hash(), flavour as u64]));
                }
                let ok = match &reference {
                    RefGreeting::Ok(v) => {
                        out.version.as_deref() == Some(v.as_str())
                            && out.items == vec![Item::Resp(DResponse { frames: vec![DFrame { fields: vec![], binary: None }], error: None }), Item::CleanEnd]
                    }
                    RefGreeting::Invalid => out.items == vec![Item::ConnectErr(Box::new(Item::ErrInvalid))],
                    RefGreeting::Eof => out.items == vec![Item::ConnectErr(Box::new(Item::ErrEof))],
                    RefGreeting::EofOrInvalid => out.items == vec![Item::ConnectErr(Box::new(Item::ErrEof))] || out.items == vec![Item::ConnectErr(Box::new(Item::ErrInvalid))],
                };
                if !ok {
                    acc.violation(
                        i,
                        None,
                        format!(
                            "greeting {:?} ({} connection, {}): reference says {:?} but connect gave version {:?}, outcome {}",
                            String::from_utf8_lossy(&g[..g.len().min(60)]),
                            flavour.name(),
                            seg2.describe(),
                            match &reference {
                                RefGreeting::Ok(v) => format!("valid, version {:?}", &v[..v.len().min(40)]),
                                other => format!("{:?}", other),
                            },
                            out.version.as_ref().map(|v| v.chars().take(40).collect::<String>()),
                            J::Arr(out.items.iter().map(|x| x.to_json()).collect()).render_compact()
                        ),
                        J::obj().set("greeting_hex", J::hex(&g)).set("segmentation", seg2.describe()),
                    );
                    return;
                }
            }
        }
        // The read that carries the greeting's line feed may carry more bytes (a proxy that coalesces, a test
        // double that answers eagerly). The verdict on the FIRST LINE must not depend on it. What becomes of the
        // extra bytes is not judged here (the library may drop or keep them).
        if g.ends_with(b"\n") && matches!(reference, RefGreeting::Ok(_) | RefGreeting::Invalid) && g.iter().filter(|&&b| b == b'\n').count() == 1 {
            let tails: [&[u8]; 6] = [b"OK\n", b"changed: player\nOK\n", b"O", b"x", b"\n", b"ACK [5@0] {} unknown\n"];
            let tail = tails[(i % tails.len() as u64) as usize];
            let mut stream = g.clone();
            stream.extend_from_slice(tail);
            let mut tsegs = vec![Seg::Whole, Seg::Cuts(vec![glen + 1.min(tail.len() - 1)])];
            if glen >= 2 {
                tsegs.push(Seg::Cuts(vec![glen - 1]));
                tsegs.push(Seg::Cuts(vec![r.range(1, glen - 1)]));
            }
            for seg in tsegs.iter() {
                let seg = match seg {
                    Seg::Cuts(c) if c.iter().any(|&x| x == 0 || x >= stream.len()) => Seg::Whole,
                    s => s.clone(),
                };
                for flavour in [Flavour::Sync, Flavour::Async] {
                    let spec = RunSpec { greeting: b"", body: &stream, seg: &seg, end: StreamEnd::Eof, flavour, pending_p: 0, pending_seed: 0, max_responses: 4, keep_alive: false };
                    let out = run(&spec);
                    acc.inc("evaluations");
                    acc.inc("greetings_followed_by_more_bytes_in_the_same_read");
                    let connect_err = match out.items.first() {
                        Some(Item::ConnectErr(e)) => Some((**e).clone()),
                        _ => None,
                    };
                    let panicked = out.items.iter().any(|x| matches!(x, Item::Panic(_)));
                    let ok = !panicked
                        && match &reference {
                            RefGreeting::Ok(v) => connect_err.is_none() && out.version.as_deref() == Some(v.as_str()),
                            _ => connect_err == Some(Item::ErrInvalid),
                        };
                    if !ok {
                        acc.violation(
                            i,
                            None,
                            format!(
                                "greeting {:?} followed by {:?} in the same read ({} connection, {}): the first line is {} but connect gave version {:?}, outcome {}",
                                String::from_utf8_lossy(&g[..g.len().min(60)]),
                                String::from_utf8_lossy(tail),
                                flavour.name(),
                                seg.describe(),
                                if matches!(reference, RefGreeting::Ok(_)) { "a valid greeting" } else { "not a greeting" },
                                out.version.as_ref().map(|v| v.chars().take(40).collect::<String>()),
                                J::Arr(out.items.iter().take(3).map(|x| x.to_json()).collect()).render_compact()
                            ),
                            J::obj().set("greeting_hex", J::hex(&g)).set("tail", J::bytes(tail)).set("segmentation", seg.describe()),
                        );
                        return;
                    }
                }
            }
        }
        if acc.want_sample() && i % 7 == 4 {
            acc.sample(i, J::obj().set("greeting", J::bytes(&g[..g.len().min(80)])).set("reference", format!("{:?}", reference).chars().take(80).collect::<String>()).set("segmentations", segs.len()));
        }
    }

    fn client_greeting_case(&self, cfg: &Cfg, i: u64, acc: &mut Acc) {
        // the same through the three Client::connect* entry points (whole session engine)
        let mut r = Rng::keyed(&[cfg.seed, 0x18c, i]);
        let g = gen_greeting(&mut r, i);
        let (reference, _) = reference_greeting(&g);
        let mut sc = Scenario::new("client-greeting", mix(&[cfg.seed, i]));
        sc.world.greeting = g.clone();
        sc.world.seg = vec![[SegPolicy::Whole, SegPolicy::PerByte, SegPolicy::Random(3)][(i % 3) as usize].clone()];
        sc.world.chunk_delay = vec![ms(i % 2)];
        sc.epilogue = matches!(reference, RefGreeting::Ok(_));
        if !g.ends_with(b"\n") {
            sc.world.fault = Fault::ServerCloseAt(Duration::from_millis(1));
        } else if !matches!(reference, RefGreeting::Ok(_)) {
            sc.world.fault = Fault::ServerCloseAt(Duration::from_secs(5));
        }
        sc.connect = match i % 3 {
            0 => ConnectKind::Plain,
            1 => ConnectKind::PasswordOpt(None),
            _ => ConnectKind::Password("pw".into()),
        };
        if matches!(sc.connect, ConnectKind::Password(_)) {
            sc.world.password = Some(("pw".into(), PasswordVerdict::Accept));
        }
        let out = sess::run(&sc);
        acc.inc("evaluations");
        acc.inc("client_connects");
        let want: Vec<&str> = match &reference {
            RefGreeting::Ok(_) => vec!["ok"],
            RefGreeting::Invalid => vec!["Protocol(InvalidMessage)"],
            RefGreeting::Eof => vec!["Protocol(Io(UnexpectedEof))"],
            RefGreeting::EofOrInvalid => vec!["Protocol(InvalidMessage)", "Protocol(Io(UnexpectedEof))"],
        };
        let got = match &out.connect {
            Some(Ok(v)) => {
                if let RefGreeting::Ok(w) = &reference {
                    if v != w {
                        acc.violation(i, None, format!("protocol_version() {:?} differs from the greeting's version {:?}", v, w), sess::detail(&sc, &out));
                    }
                }
                "ok".to_string()
            }
            Some(Err(e)) => e.clone(),
            None => "none".to_string(),
        };
        if !want.contains(&got.as_str()) || !out.panics.is_empty() {
            acc.violation(i, None, format!("Client::connect* on greeting {:?}: {} (panics {:?}), reference {:?}", String::from_utf8_lossy(&g[..g.len().min(60)]), got, out.panics, want), sess::detail(&sc, &out));
        }
        // nothing may be written if the greeting was not accepted
        if got != "ok" && out.log.iter().any(|e| matches!(e.kind, EvKind::ClientWrote { .. })) {
            acc.violation(i, None, "the client wrote to a peer whose greeting it did not accept".to_string(), sess::detail(&sc, &out));
        }
    }

    fn password_case(&self, cfg: &Cfg, i: u64, acc: &mut Acc) {
        let mut r = Rng::keyed(&[cfg.seed, 0x18b, i]);
        let pw = *r.pick(&["secret", "two words", "tab\tinside", "pässwörd €", "x", "with  double  blanks ", "", " ", "say \"hi\" there", "back\\slash here", "0"]);
        let verdicts = [
            PasswordVerdict::Accept,
            PasswordVerdict::Reject(3),
            PasswordVerdict::Reject(4),
            PasswordVerdict::Reject(5),
            PasswordVerdict::Reject(50),
            PasswordVerdict::RejectAfterOutput(3),
            PasswordVerdict::RejectAfterListOk(3),
            PasswordVerdict::Close,
            PasswordVerdict::Garbage,
            PasswordVerdict::CutInsideReply,
        ];
        let verdict = verdicts[(i % verdicts.len() as u64) as usize].clone();
        let mut sc = Scenario::new("password", mix(&[cfg.seed, 0x18b, i]));
        sc.world.password = Some((pw.to_string(), verdict.clone()));
        sc.connect = if r.chance(1, 2) { ConnectKind::Password(pw.to_string()) } else { ConnectKind::PasswordOpt(Some(pw.to_string())) };
        sc.world.reply_delay = vec![*r.pick(&[Duration::ZERO, ms(1), ms(30), ms(250)])];
        sc.world.seg = vec![r.pick(&[SegPolicy::Whole, SegPolicy::PerByte, SegPolicy::PerLine]).clone()];
        sc.world.chunk_delay = vec![*r.pick(&[Duration::ZERO, ms(1), ms(40)])];
        sc.world.c2s_latency = vec![*r.pick(&[Duration::ZERO, ms(3)])];
        sc.world.write_cap = *r.pick(&[usize::MAX, 4]);
        sc.callers = vec![(Duration::ZERO, vec![Step::Do(Req::Raw { shape: 1 })])];
        sc.notifications = vec![(ms(10), vec!["player".into()])];
        let accepted = matches!(verdict, PasswordVerdict::Accept);
        sc.epilogue = accepted;
        let out = sess::run(&sc);
        acc.inc("evaluations");
        acc.inc("password_sessions");
        acc.inc(&format!("password_verdict_{}", format!("{:?}", verdict).split('(').next().unwrap_or("").to_lowercase()));
        acc.distinct("nontrivial", mix(&[0x18b, i % 10, hash_bytes(pw.as_bytes()), sc.world.reply_delay[0].as_millis() as u64, sc.world.write_cap.min(5) as u64]));
        let a = Analysis::new(&out);
        let fail = |acc: &mut Acc, m: String| acc.violation(i, None, format!("{} [verdict {:?}, password {:?}]", m, verdict, pw), sess::detail(&sc, &out));
        if !out.panics.is_empty() || out.hung.iter().any(|h| h == "connect") {
            fail(acc, format!("panic or hang during the handshake: {:?} {:?}", out.panics, out.hung));
            return;
        }
        // result kind
        let want = match verdict {
            PasswordVerdict::Accept => "ok",
            PasswordVerdict::Reject(_) | PasswordVerdict::RejectAfterOutput(_) | PasswordVerdict::RejectAfterListOk(_) => "IncorrectPassword",
            PasswordVerdict::Close | PasswordVerdict::CutInsideReply => "Protocol(Io(UnexpectedEof))",
            PasswordVerdict::Garbage => "Protocol(InvalidMessage)",
        };
        let got = match &out.connect {
            Some(Ok(_)) => "ok".to_string(),
            Some(Err(e)) => e.clone(),
            None => "none".into(),
        };
        if got != want {
            fail(acc, format!("connect_with_password returned {} instead of {}", got, want));
            return;
        }
        if let Some(Ok(v)) = &out.connect {
            let g = &sc.world.greeting;
            if v.as_bytes() != &g[7..g.len() - 1] {
                fail(acc, format!("protocol_version() is {:?} but the greeting announced {:?}", v, String::from_utf8_lossy(&g[7..g.len() - 1])));
                return;
            }
        }
        // first thing written: `password <arg>` carrying the password byte for byte
        match a.units.first() {
            Some(u) if u.kind == UnitKind::Password => match tokenize(&u.lines[0]) {
                Ok((n, args)) if n == b"password" && args.len() == 1 && args[0] == pw.as_bytes() => {}
                other => {
                    fail(acc, format!("the password line does not carry the password: {:?} -> {:?}", String::from_utf8_lossy(&u.lines[0]), other.map(|x| x.1.iter().map(|a| String::from_utf8_lossy(a).to_string()).collect::<Vec<_>>())));
                    return;
                }
            },
            other => {
                fail(acc, format!("the first thing written is {:?}, not the password", other.map(|u| String::from_utf8_lossy(&u.lines[0]).to_string())));
                return;
            }
        }
        if !accepted {
            // nothing further written
            if a.units.len() != 1 {
                fail(acc, format!("after the password was not accepted the client still wrote {:?}", a.units[1..].iter().map(|u| String::from_utf8_lossy(&u.lines[0]).to_string()).collect::<Vec<_>>()));
                return;
            }
            acc.inc("rejections_nothing_further_written");
        } else {
            // idle only after the server's OK was completely delivered: the C05 oracle judges every unit,
            // including the idle after the password
            c05::check(acc, i, &sc, &out, &a, true);
            if a.units.get(1).map(|u| u.kind.clone()) != Some(UnitKind::Idle) {
                fail(acc, format!("after the accepted password the client wrote {:?} instead of idle", a.units.get(1).map(|u| String::from_utf8_lossy(&u.lines[0]).to_string())));
                return;
            }
            for h in &out.hung {
                fail(acc, format!("{} never completed", h));
            }
            acc.inc("accepted_then_idle");
        }
    }
}

impl Property for C18 {
    fn id(&self) -> &'static str {
        "C18"
    }
    fn cases(&self, cfg: &Cfg) -> u64 {
        cfg.tier.pick(3_000, 60_000) + cfg.tier.pick(600, 15_000) + cfg.tier.pick(1_600, 32_000)
    }
    fn run_case(&self, cfg: &Cfg, i: u64, acc: &mut Acc) {
        let a = cfg.tier.pick(3_000, 60_000);
        let b = cfg.tier.pick(600, 15_000);
        if i < a {
            self.greeting_case(cfg, i, acc);
        } else if i < a + b {
            self.client_greeting_case(cfg, i - a, acc);
        } else {
            self.password_case(cfg, i - a - b, acc);
        }
    }
    fn meta(&self, _cfg: &Cfg, _acc: &Acc) -> Meta {
        Meta {
            level: "exploration",
            rule: "greetings: valid versions of any shape (digits, letters, blanks, CR, NUL, non-ASCII, nested 'OK MPD', 4-9 KiB), wrong prefixes differing at each position, empty version, invalid UTF-8, streams ending before the line end, random bytes; each under whole, byte-at-a-time, EVERY 2-way split (greetings <=64 bytes; sampled + buffer-edge points otherwise) and random k-way splits on the blocking and async connection, compared with the greeting reference; greetings followed by more bytes inside the same read (OK, an idle reply, a lone byte, an ACK): the verdict on the first line must be the same (valid => version verbatim and the connection usable; complete malformed line => InvalidMessage; no line end => UnexpectedEof); the same through Client::connect / connect_with_password / connect_with_password_opt in the session engine (nothing may be written to a peer whose greeting was not accepted); password sessions: verdicts OK, ACK 3/4/5/50, ACK after printed output, ACK after a list_OK frame, close, garbage, reply cut inside, with delayed/chopped replies, wire latency, 4-byte writes, passwords with blanks/tabs/non-ASCII/quotes, the empty password and a single blank (through both constructors), a caller and a notification waiting: first line must be `password <arg>` tokenising to the password, idle only after the OK was completely delivered (C05 oracle), nothing further written after a rejection, result kinds IncorrectPassword / protocol errors; non-trivial = greeting split inside the line or password session; distinct by (greeting, segmentation, flavour) / (verdict, password, timing)".into(),
            nontrivial_set: "nontrivial",
            assumptions: vec!["greeting grammar from the protocol document: `OK MPD ` + >=1 non-LF bytes that are valid UTF-8 + LF".into(), "a stream that ends without LF after bytes that can no longer become a greeting may be reported as InvalidMessage or UnexpectedEof".into()],
            exhaustive: None,
            floors: vec![
                ("greetings_valid".into(), 100),
                ("greetings_invalid".into(), 50),
                ("greetings_cut_before_line_end".into(), 10),
                ("greetings_all_2way_splits".into(), 100),
                ("greetings_followed_by_more_bytes_in_the_same_read".into(), 200),
                ("client_connects".into(), 100),
                ("password_sessions".into(), 200),
                ("rejections_nothing_further_written".into(), 50),
                ("accepted_then_idle".into(), 20),
            ],
            extra: vec![],
        }
    }
}
