//! C05 — the client's output is always a legal MPD session (idle/noidle discipline).

use std::time::Duration;

use super::sess::{self, Plan};
use crate::sim::analysis::{Analysis, UnitKind};
use crate::sim::session::{Outcome, Scenario};
use crate::sim::world::{EvKind, Phase};
use crate::util::acc::Acc;
use crate::util::json::J;
use crate::util::Cfg;
use crate::{Meta, Property};

pub struct C05;

/// The C05 oracle over one session. `fault_free`: also check the epilogue obligations.
pub fn check(acc: &mut Acc, case: u64, sc: &Scenario, out: &Outcome, a: &Analysis<'_>, fault_free: bool) {
    let d = out.d;
    let slack = Duration::from_secs(1);
    // (i) online: the simulated server saw something other than noidle while waiting in idle
    for e in a.log() {
        if let EvKind::ServerViolation { line, why } = &e.kind {
            acc.violation(case, None, format!("the server received {:?} while waiting in idle ({})", String::from_utf8_lossy(line), why), sess::detail(sc, out));
            return;
        }
    }
    // (iii) first thing written
    if let Some(u) = a.units.first() {
        let ok = match (&sc.connect, &u.kind) {
            (crate::sim::session::ConnectKind::Plain, UnitKind::Idle) => true,
            (crate::sim::session::ConnectKind::PasswordOpt(None), UnitKind::Idle) => true,
            (crate::sim::session::ConnectKind::Password(_), UnitKind::Password) => true,
            (crate::sim::session::ConnectKind::PasswordOpt(Some(_)), UnitKind::Password) => true,
            _ => false,
        };
        if !ok {
            acc.violation(case, None, format!("first line written after the greeting is {:?}", String::from_utf8_lossy(&u.lines[0])), sess::detail(sc, out));
            return;
        }
    }
    // (ii) at most one outstanding; only noidle while an idle is outstanding
    let replies: Vec<Option<crate::sim::analysis::Reply>> = (0..a.units.len()).map(|i| a.unit_reply(i)).collect();
    for (ui, u) in a.units.iter().enumerate() {
        acc.inc("lines_judged");
        let delivered = a.delivered_before(u.start_log);
        let mut outstanding: Vec<usize> = Vec::new();
        for (vi, v) in a.units[..ui].iter().enumerate() {
            match &replies[vi] {
                Some(r) => {
                    if r.end > delivered {
                        outstanding.push(vi);
                    }
                }
                None => {
                    // never answered: a noidle the server ignored has no reply by definition
                    if v.kind != UnitKind::Noidle {
                        outstanding.push(vi);
                    }
                }
            }
        }
        // a noidle's reply that also answers the idle before it: both point at the same reply; that is one exchange
        let legal = outstanding.is_empty()
            || (u.kind == UnitKind::Noidle && outstanding.len() == 1 && a.units[outstanding[0]].kind == UnitKind::Idle);
        if !legal {
            let what: Vec<String> = outstanding.iter().map(|&v| format!("{:?} `{}`", a.units[v].kind, String::from_utf8_lossy(&a.units[v].lines[0]))).collect();
            acc.violation(
                case,
                None,
                format!(
                    "the client wrote `{}` at {:.3} ms while the reply to {} had not been completely delivered to it",
                    String::from_utf8_lossy(&u.lines[0]),
                    u.start_t as f64 / 1e6,
                    what.join(" and ")
                ),
                sess::detail(sc, out),
            );
            return;
        }
    }
    // (iv) bounded re-idle: after a reply is completely delivered at t, if no call starts in [t, t+D],
    // an idle line must have been written by t + D + slack (only judged if the session lasted that long
    // and the connection was still usable)
    let session_end = a.log().last().map(|e| e.t).unwrap_or(0);
    let calls = a.calls();
    let closed_t = a.log().iter().find(|e| matches!(e.kind, EvKind::Fault(_) | EvKind::HandlesDropped | EvKind::ServerClosed | EvKind::EventClosed(_) | EvKind::TransportDropped)).map(|e| e.t).unwrap_or(u64::MAX);
    for (ui, u) in a.units.iter().enumerate() {
        if !matches!(u.kind, UnitKind::Single | UnitKind::List | UnitKind::Idle | UnitKind::Password) {
            continue;
        }
        let Some(r) = &replies[ui] else { continue };
        let Some((_, t)) = a.delivery_point(r.end) else { continue };
        let deadline = t + (d + slack).as_nanos() as u64;
        if deadline >= session_end || deadline >= closed_t {
            continue;
        }
        let window_end = t + d.as_nanos() as u64;
        // a call started in the window, or was still open at t (a cancelled call stays open: its request
        // may still be served), or the client was serving a request in the meantime
        let busy = calls.iter().any(|c| {
            let end_t = if c.cancelled.is_some() { u64::MAX } else { c.end.as_ref().map(|e| e.1).unwrap_or(u64::MAX) };
            c.start_t <= window_end && end_t > t
        }) || a.units[ui + 1..].iter().any(|v| matches!(v.kind, UnitKind::Single | UnitKind::List) && v.start_t <= deadline);
        if busy {
            continue;
        }
        acc.inc("reidle_obligations_checked");
        let reidled = a.units[ui + 1..].iter().any(|v| v.kind == UnitKind::Idle && v.end_t <= deadline);
        let any_later = a.units.len() > ui + 1;
        if !reidled {
            acc.violation(
                case,
                None,
                format!(
                    "no idle was issued within D + 1 s = {:?} after the reply to `{}` was delivered at {:.3} ms although no request arrived in the re-idle window{}",
                    d + slack,
                    String::from_utf8_lossy(&u.lines[0]),
                    t as f64 / 1e6,
                    if any_later { " (something else was written instead)" } else { "" }
                ),
                sess::detail(sc, out),
            );
            return;
        }
    }
    // (v) epilogue: after a quiet period the server must be waiting in idle, and a notification must come through
    if fault_free && sc.epilogue && out.hung.is_empty() {
        if let Some(p) = out.phase_after_quiet {
            acc.inc("epilogue_idle_checks");
            if p != Phase::Idle {
                acc.violation(case, None, "after a quiet period of 4 D + 1 s the server is not waiting in idle: the client did not re-issue idle".to_string(), sess::detail(sc, out));
                return;
            }
        }
        if out.epilogue_probe_delivered == Some(false) {
            acc.violation(case, None, "a notification raised after the quiet period never reached the event receiver (notifications stopped flowing)".to_string(), sess::detail(sc, out));
        }
    }
}

impl Property for C05 {
    fn id(&self) -> &'static str {
        "C05"
    }
    fn cases(&self, cfg: &Cfg) -> u64 {
        Plan::for_tier(cfg.tier, 3_000, 300_000).cases()
    }
    fn run_case(&self, cfg: &Cfg, i: u64, acc: &mut Acc) {
        let plan = Plan::for_tier(cfg.tier, 3_000, 300_000);
        let sc = plan.scenario(cfg, i);
        let out = sess::run(&sc);
        acc.inc("evaluations");
        acc.inc("sessions");
        if !sess::common_faultfree(acc, i, &sc, &out) {
            return;
        }
        let a = Analysis::new(&out);
        let cov = sess::cover(acc, &a);
        if cov.overlap {
            acc.distinct("nontrivial", a.signature());
        }
        acc.distinct("signatures", a.signature());
        for h in &out.hung {
            acc.violation(i, None, format!("{} never completed in a fault-free session (pending at the far virtual deadline)", h), sess::detail(&sc, &out));
        }
        check(acc, i, &sc, &out, &a, true);
        if acc.want_sample() && cov.overlap && out.log.len() < 80 {
            acc.sample(i, J::obj().set("scenario", sc.name.clone()).set("log", J::Arr(out.render_log(80).into_iter().map(J::Str).collect())));
        }
    }
    fn meta(&self, cfg: &Cfg, _acc: &Acc) -> Meta {
        let mut floors = sess::coverage_floors(cfg.tier);
        floors.push(("reidle_obligations_checked".into(), 100));
        floors.push(("epilogue_idle_checks".into(), 100));
        Meta {
            level: "exploration",
            rule: "sessions of the real client against the simulated MPD server on a paused-clock current-thread runtime with seeded select!: 35 directed scenarios x variants (incl. write back-pressure, a dropped events receiver, an events receiver the application keeps but does not poll while 150-600 changes pile up, a transport whose shutdown never completes) + bounded-exhaustive timing grids (request at 50..70 ms x notification at 50..70 ms at 1 ms resolution x wire latency x idle-reply chopping; second request and notification at -5..+5 ms around the end of the re-idle window) x select! seeds (aimed at: request between/inside the chunks of an idle reply, noidle crossing a server-initiated idle reply, both select! branches ready, think times D-1/D/D+1 around the re-idle delay, queued callers, cancellation, multi-change replies, failing lists, byte-wise reads) + seeded random scenarios (1-6 callers, <=40 requests, raw commands/lists/pipelining/cancellation, reply and wire latencies, chopped replies, read caps, spurious Pending, write granularity, notification schedules); oracle: every request unit the client writes is judged against what had been COMPLETELY DELIVERED to it (<=1 outstanding; only noidle while one idle is outstanding), the server must never receive anything but noidle while waiting in idle, first line idle/password, bounded re-idle (no request in [t, t+D] => idle written by t+D+1s), epilogue (server in idle after a quiet period, probe notification delivered); non-trivial = session in which request/notification/timer/cancellation overlapped (P1,P2,P6,P7,P9,P12); distinct by interleaving signature of the boundary log".into(),
            nontrivial_set: "nontrivial",
            assumptions: vec![
                "simulated server implements MPD's idle rules (client/Process.cxx): noidle outside idle is ignored without reply; anything else during idle is a protocol violation".into(),
                "re-idle delay D read through the verif hook; liveness restated as bounded progress in virtual time (D + 1 s)".into(),
                "schedules are those of a cooperative single-threaded executor; select! decisions seeded".into(),
            ],
            exhaustive: None,
            floors,
            extra: vec![],
        }
    }
}
