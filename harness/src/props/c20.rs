//! C20 — tags and subsystems compare, hash and parse by protocol name.

use std::collections::hash_map::{DefaultHasher, RandomState};
use std::collections::{BTreeMap, BTreeSet, HashMap, HashSet};
use std::hash::{BuildHasher, Hash, Hasher};

use bytes::BytesMut;
use mpd_client::client::Subsystem;
use mpd_client::tag::Tag;
use mpd_protocol::command::Argument;

use crate::refmodel::mpdspec;
use crate::util::acc::Acc;
use crate::util::json::J;
use crate::util::rng::{hash_bytes, mix, Rng};
use crate::util::Cfg;
use crate::{Meta, Property};

pub struct C20;

/// An independent, deliberately simple hasher (FNV-1a).
struct Fnv(u64);
impl Hasher for Fnv {
    fn finish(&self) -> u64 {
        self.0
    }
    fn write(&mut self, bytes: &[u8]) {
        for &b in bytes {
            self.0 ^= b as u64;
            self.0 = self.0.wrapping_mul(0x100000001b3);
        }
    }
}

fn h_default<T: Hash>(t: &T) -> u64 {
    let mut h = DefaultHasher::new();
    t.hash(&mut h);
    h.finish()
}
fn h_fnv<T: Hash>(t: &T) -> u64 {
    let mut h = Fnv(0xcbf29ce484222325);
    t.hash(&mut h);
    h.finish()
}
fn h_random<T: Hash>(s: &RandomState, t: &T) -> u64 {
    s.hash_one(t)
}

fn casings(n: &str) -> Vec<String> {
    let alt: String = n.chars().enumerate().map(|(i, c)| if i % 2 == 0 { c.to_ascii_uppercase() } else { c.to_ascii_lowercase() }).collect();
    let mut v = vec![n.to_string(), n.to_ascii_lowercase(), n.to_ascii_uppercase(), alt];
    v.dedup();
    v
}

fn rendered(t: &Tag) -> Vec<u8> {
    let mut b = BytesMut::new();
    t.render(&mut b);
    b.to_vec()
}

/// (value, protocol name, how it was obtained)
fn tag_universe() -> Vec<(Tag, String, &'static str)> {
    let mut v = Vec::new();
    for (t, n) in mpdspec::named_tags() {
        v.push((t, n.to_string(), "named"));
        for c in casings(n) {
            v.push((Tag::Other(c.clone().into()), c, "other-handmade"));
        }
    }
    for n in mpdspec::OTHER_TAG_NAMES.iter().chain(["Mood", "mood", "MOOD", "b", "B", "x", "-", "_", "any-thing", "ANY"].iter()) {
        v.push((Tag::Other((*n).into()), n.to_string(), "other-handmade"));
    }
    v.push((Tag::any(), "any".to_string(), "any()"));
    v
}

fn sub_universe() -> Vec<(Subsystem, String)> {
    let mut v = Vec::new();
    for (s, n) in mpdspec::named_subsystems() {
        v.push((s, n.to_string()));
        for c in casings(n) {
            v.push((Subsystem::Other(c.clone().into()), c));
        }
    }
    for n in ["foo_bar", "x-y", "", "Player ", "new_subsystem", "PLAYER", "queue", "storedplaylist"] {
        v.push((Subsystem::Other(n.into()), n.to_string()));
    }
    v
}

const ALPHABET: &[char] = &['a', 'Z', 'm', '_', '-', '0', '9', ' ', '.', ':', '/', '\t', '\n', '\0', 'é', 'Ω', '"', '\'', '=', '+'];

impl Property for C20 {
    fn id(&self) -> &'static str {
        "C20"
    }
    fn cases(&self, cfg: &Cfg) -> u64 {
        5 + cfg.tier.pick(500, 5_000)
    }
    fn run_case(&self, cfg: &Cfg, i: u64, acc: &mut Acc) {
        let rs = RandomState::new();
        match i {
            0 => {
                // ---- tags: all pairs ------------------------------------------------------------
                let u = tag_universe();
                // protocol name observable through rendering and == &str
                for (t, n, _) in &u {
                    acc.inc("evaluations");
                    if rendered(t) != n.as_bytes() {
                        acc.violation(i, None, format!("tag {:?} renders as {:?}, protocol name {:?}", t, String::from_utf8_lossy(&rendered(t)), n), J::Null);
                    }
                    if !(*t == n.as_str()) {
                        acc.violation(i, None, format!("tag {:?} != its protocol name {:?} as &str", t, n), J::Null);
                    }
                }
                let mut hm: HashMap<Tag, usize> = HashMap::new();
                let mut bm: BTreeMap<Tag, usize> = BTreeMap::new();
                let mut hs: HashSet<Tag> = HashSet::new();
                let mut bs: BTreeSet<Tag> = BTreeSet::new();
                let mut names_seen: HashSet<String> = HashSet::new();
                for (k, (t, n, _)) in u.iter().enumerate() {
                    let fresh = names_seen.insert(n.clone());
                    if hm.insert(t.clone(), k).is_none() != fresh || bm.insert(t.clone(), k).is_none() != fresh || hs.insert(t.clone()) != fresh || bs.insert(t.clone()) != fresh {
                        acc.violation(i, None, format!("inserting tag {:?} (name {:?}) into a map/set: 'new key' disagrees with 'new protocol name' (= {})", t, n, fresh), J::Null);
                    }
                }
                if hm.len() != names_seen.len() || bm.len() != names_seen.len() {
                    acc.violation(i, None, format!("maps keyed by tag hold {} / {} entries for {} distinct protocol names", hm.len(), bm.len(), names_seen.len()), J::Null);
                }
                // BTreeSet iteration order == name order
                let order: Vec<String> = bs.iter().map(|t| String::from_utf8_lossy(&rendered(t)).to_string()).collect();
                let mut sorted = order.clone();
                sorted.sort();
                if order != sorted {
                    acc.violation(i, None, "BTreeSet<Tag> does not iterate in protocol-name order".to_string(), J::obj().set("order", order.clone()));
                }
                for (x, nx, _) in &u {
                    for (y, ny, _) in &u {
                        acc.inc("evaluations");
                        acc.inc("tag_pairs");
                        acc.distinct("nontrivial", mix(&[1, hash_bytes(nx.as_bytes()), hash_bytes(ny.as_bytes()), hash_bytes(format!("{:?}{:?}", x, y).as_bytes())]));
                        let eq = x == y;
                        if eq != (nx == ny) {
                            acc.violation(i, None, format!("{:?} == {:?} is {} but protocol names {:?} / {:?}", x, y, eq, nx, ny), J::Null);
                        }
                        if x.cmp(y) != nx.cmp(ny) || x.partial_cmp(y) != Some(nx.cmp(ny)) {
                            acc.violation(i, None, format!("{:?}.cmp({:?}) = {:?} but names compare {:?}", x, y, x.cmp(y), nx.cmp(ny)), J::Null);
                        }
                        if nx == ny {
                            if h_default(x) != h_default(y) || h_fnv(x) != h_fnv(y) || h_random(&rs, x) != h_random(&rs, y) {
                                acc.violation(i, None, format!("{:?} and {:?} have the same protocol name but hash differently", x, y), J::Null);
                            }
                            if !hm.contains_key(y) || !hs.contains(y) || !bm.contains_key(y) || !bs.contains(y) {
                                acc.violation(i, None, format!("map/set holding {:?} does not find {:?}", x, y), J::Null);
                            }
                        }
                    }
                }
                if acc.want_sample() {
                    acc.sample(i, J::obj().set("pair", "Tag::Album vs Tag::Other(\"Album\")").set("eq", Tag::Album == Tag::Other("Album".into())).set("universe", u.len()));
                }
            }
            1 => {
                // ---- subsystems: all pairs ------------------------------------------------------
                let u = sub_universe();
                let mut hm: HashMap<Subsystem, usize> = HashMap::new();
                let mut hs: HashSet<Subsystem> = HashSet::new();
                let mut names_seen: HashSet<String> = HashSet::new();
                for (k, (s, n)) in u.iter().enumerate() {
                    acc.inc("evaluations");
                    if s.as_str() != n {
                        acc.violation(i, None, format!("subsystem {:?} has protocol name {:?}, expected {:?}", s, s.as_str(), n), J::Null);
                    }
                    let fresh = names_seen.insert(n.clone());
                    if hm.insert(s.clone(), k).is_none() != fresh || hs.insert(s.clone()) != fresh {
                        acc.violation(i, None, format!("inserting subsystem {:?} into a map/set: 'new key' disagrees with 'new protocol name'", s), J::Null);
                    }
                }
                for (x, nx) in &u {
                    for (y, ny) in &u {
                        acc.inc("evaluations");
                        acc.inc("subsystem_pairs");
                        acc.distinct("nontrivial", mix(&[2, hash_bytes(nx.as_bytes()), hash_bytes(ny.as_bytes()), hash_bytes(format!("{:?}{:?}", x, y).as_bytes())]));
                        if (x == y) != (nx == ny) {
                            acc.violation(i, None, format!("{:?} == {:?} is {} but protocol names {:?} / {:?}", x, y, x == y, nx, ny), J::Null);
                        }
                        if nx == ny {
                            if h_default(x) != h_default(y) || h_fnv(x) != h_fnv(y) || h_random(&rs, x) != h_random(&rs, y) {
                                acc.violation(i, None, format!("{:?} and {:?} have the same protocol name but hash differently", x, y), J::Null);
                            }
                            if !hm.contains_key(y) || !hs.contains(y) {
                                acc.violation(i, None, format!("map/set holding {:?} does not find {:?}", x, y), J::Null);
                            }
                        }
                    }
                }
            }
            2 => {
                // ---- parsing: all strings of length <= 2 over the alphabet, named in 4 casings ---
                let mut cands: Vec<String> = vec![String::new()];
                for a in ALPHABET {
                    cands.push(a.to_string());
                    for b in ALPHABET {
                        cands.push(format!("{}{}", a, b));
                    }
                }
                let named = mpdspec::named_tags();
                for (_, n) in &named {
                    cands.extend(casings(n));
                    cands.push(format!("{} ", n));
                    cands.push(format!(" {}", n));
                    cands.push(format!("{}x", n));
                    cands.push(format!("{}1", n));
                }
                for n in mpdspec::OTHER_TAG_NAMES {
                    cands.push(n.to_string());
                }
                // characters outside ASCII whose case mappings land on ASCII letters (Kelvin sign, long s, dotless
                // and dotted i, ligatures): known names spelled with them are NOT names the protocol can carry
                for (_, n) in &named {
                    for (from, to) in [('k', '\u{212a}'), ('K', '\u{212a}'), ('s', '\u{17f}'), ('S', '\u{17f}'), ('i', '\u{131}'), ('I', '\u{130}'), ('a', '\u{e5}'), ('A', '\u{212b}')] {
                        if n.contains(from) {
                            cands.push(n.replacen(from, &to.to_string(), 1));
                            cands.push(n.to_ascii_lowercase().replacen(from.to_ascii_lowercase(), &to.to_string(), 1));
                            cands.push(n.to_ascii_uppercase().replacen(from.to_ascii_uppercase(), &to.to_string(), 1));
                        }
                    }
                    if n.contains("fi") {
                        cands.push(n.replacen("fi", "\u{fb01}", 1));
                    }
                }
                // valid names of every length up to 70 and a few much longer ones, alone and behind each known name
                for n in (1..=70usize).chain([127, 128, 129, 255, 256, 257, 1000, 5000]) {
                    cands.push("x".repeat(n));
                    cands.push(format!("{}{}", "Ab-c_".repeat(n / 5 + 1), "Z".repeat(n % 5)));
                }
                for (_, n) in &named {
                    for extra in ["x", "ID", "_SORT", "xxxxxxxxxxxxxxxxxxxxxxxxxxxxxxxx"] {
                        cands.push(format!("{}{}", n, extra));
                        cands.push(format!("{}{}", n.to_ascii_lowercase(), extra));
                    }
                }
                for n in super::typed::PLAUSIBLE_UNKNOWN_TAG_NAMES {
                    cands.push(n.to_string());
                    cands.push(n.to_ascii_lowercase());
                    cands.push(n.to_ascii_uppercase());
                }
                for s in cands {
                    self.parse_one(acc, i, &s, &named);
                }
                // EVERY Unicode scalar value as the middle character of an otherwise valid unknown name (1.1 million
                // conversions): only ASCII letters, `_` and `-` may be accepted
                for cp in 0..=0x10ffffu32 {
                    let Some(ch) = char::from_u32(cp) else { continue };
                    let valid = ch.is_ascii_alphabetic() || ch == '_' || ch == '-';
                    let name = format!("Ab{}cd", ch);
                    acc.inc("characters_swept");
                    match (Tag::try_from(name.as_str()), valid) {
                        (Ok(t), false) => {
                            acc.violation(i, None, format!("Tag::try_from({:?}) accepts U+{:04X}, a character the protocol cannot carry in a field name (result {:?})", name, cp, t), J::Null);
                        }
                        (Err(e), true) => acc.violation(i, None, format!("Tag::try_from({:?}) rejects a valid name: {}", name, e), J::Null),
                        _ => {}
                    }
                }
                acc.inc("parse_exhaustive_done");
            }
            4 => {
                // every subsystem name reported by the server maps to an event whose protocol name is that name:
                // one real session per block of names (14 documented names, case variants, unknown names)
                use crate::sim::scenario::ms;
                use crate::sim::session::{run_session, Scenario};
                use crate::sim::world::EvKind;
                let mut names: Vec<String> = Vec::new();
                for n in mpdspec::SUBSYSTEMS {
                    names.extend(casings(n));
                }
                for n in ["foo_bar", "x-y", "storedplaylist", "queue", "Playlist", "stored-playlist", "a", "Z"] {
                    names.push(n.to_string());
                }
                let mut sc = Scenario::new("subsystem-names", 20);
                sc.world.pending_as_set = false;
                // one name per reply, then all of them in replies of five
                for (k, n) in names.iter().enumerate() {
                    sc.notifications.push((ms(10 + 3 * k as u64), vec![n.clone()]));
                }
                let base = 10 + 3 * names.len() as u64 + 50;
                for (k, chunk) in names.chunks(5).enumerate() {
                    sc.notifications.push((ms(base + 3 * k as u64), chunk.to_vec()));
                }
                let out = run_session(&sc);
                acc.inc("evaluations");
                let want: Vec<String> = sc.notifications.iter().flat_map(|(_, ns)| ns.iter().cloned()).chain(std::iter::once("epilogue_probe".to_string())).collect();
                let got: Vec<String> = out.log.iter().filter_map(|e| if let EvKind::EventChange(n) = &e.kind { Some(n.clone()) } else { None }).collect();
                acc.count("subsystem_names_through_a_session", got.len() as u64);
                if got != want || !out.panics.is_empty() {
                    let k = got.iter().zip(want.iter()).position(|(a, b)| a != b).unwrap_or(got.len().min(want.len()));
                    acc.violation(i, None, format!("the event for `changed: {}` carries a subsystem whose protocol name is {:?} ({} events for {} reported names; panics {:?})", want.get(k).cloned().unwrap_or_default(), got.get(k), got.len(), want.len(), out.panics), J::obj().set("reported", want.clone()).set("events", got.clone()));
                }
            }
            3 => {
                // round trip for every named variant: try_from(name_of(t)) == t and is the named variant again
                for (t, n) in mpdspec::named_tags() {
                    acc.inc("evaluations");
                    let name = String::from_utf8(rendered(&t)).unwrap_or_default();
                    match Tag::try_from(name.as_str()) {
                        Ok(back) => {
                            if back != t || rendered(&back) != n.as_bytes() {
                                acc.violation(i, None, format!("try_from(name of {:?}) gives {:?}", t, back), J::Null);
                            }
                            if std::mem::discriminant(&back) != std::mem::discriminant(&t) {
                                acc.violation(i, None, format!("try_from({:?}) gives {:?}, not the named variant {:?}", name, back, t), J::Null);
                            }
                        }
                        Err(e) => acc.violation(i, None, format!("try_from(name of {:?}) fails: {}", t, e), J::Null),
                    }
                }
            }
            _ => {
                // random candidate strings
                let mut r = Rng::keyed(&[cfg.seed, 20, i]);
                let named = mpdspec::named_tags();
                for _ in 0..64 {
                    let n = r.range(1, 16);
                    let s: String = if r.chance(1, 3) {
                        let base = named[r.below(named.len())].1;
                        // random casing of a known name, sometimes with one foreign character
                        let mut s: String = base.chars().map(|c| if r.chance(1, 2) { c.to_ascii_uppercase() } else { c.to_ascii_lowercase() }).collect();
                        if r.chance(1, 4) {
                            let p = r.below(s.len() + 1);
                            s.insert(p, *r.pick(ALPHABET));
                        }
                        s
                    } else {
                        (0..n).map(|_| if r.chance(4, 5) { (b'a' + r.below(26) as u8) as char } else { *r.pick(ALPHABET) }).collect()
                    };
                    self.parse_one(acc, i, &s, &named);
                }
            }
        }
    }
    fn meta(&self, _cfg: &Cfg, _acc: &Acc) -> Meta {
        Meta {
            level: "exploration",
            rule: "EXHAUSTIVE: all ordered pairs over {31 named tags, Tag::Other of each name in canonical/lower/upper/alternating case, 20 other names, Tag::any()} and over {14 named subsystems, Subsystem::Other of each name in 4 casings, 8 unknown names}: == iff protocol names equal, equal => same hash under SipHash/FNV/RandomState and found in HashMap/HashSet/BTreeMap/BTreeSet, cmp == cmp of names, set iteration in name order; protocol name observed through the bytes rendered as a command argument, Tag == &str and Subsystem::as_str; parsing: all strings of length <=2 over a 20-character alphabet, every known name in 4 casings and with foreign characters appended, random strings: accepted iff non-empty and within [A-Za-z_-], known names in any case give the canonical spelling, parsing the rendered name gives back an equal tag; non-trivial = every pair / every candidate string; distinct by (names, variants)".into(),
            nontrivial_set: "nontrivial",
            assumptions: vec![
                "name tables typed from MPD tag/Names.c and IdleFlags.cxx (harness/src/refmodel/mpdspec.rs)".into(),
                "hand-constructed Tag::Other in non-canonical case is documented as unchecked: the round-trip clause is checked for named variants and try_from results only".into(),
                "the subsystem carried by events for `changed: <name>` is observed in a real session against the simulated server (and, under racing schedules, by the C04 monitor)".into(),
            ],
            exhaustive: Some(true),
            floors: vec![("tag_pairs".into(), 10_000), ("subsystem_pairs".into(), 3_000), ("parse_exhaustive_done".into(), 1), ("strings_parsed".into(), 500), ("subsystem_names_through_a_session".into(), 50)],
            extra: vec![],
        }
    }
}

impl C20 {
    fn parse_one(&self, acc: &mut Acc, i: u64, s: &str, named: &[(Tag, &'static str)]) {
        acc.inc("evaluations");
        acc.inc("strings_parsed");
        acc.distinct("nontrivial", mix(&[3, hash_bytes(s.as_bytes())]));
        let valid = !s.is_empty() && s.chars().all(|c| c.is_ascii_alphabetic() || c == '_' || c == '-');
        let got = match crate::util::panics::catch(|| Tag::try_from(s)) {
            Ok(g) => g,
            Err(p) => {
                acc.violation(i, None, format!("Tag::try_from({:?}) panics: {}", s, p.0), J::Null);
                return;
            }
        };
        match (&got, valid) {
            (Ok(_), false) => acc.violation(i, None, format!("Tag::try_from({:?}) accepts a string the protocol cannot carry as a field name", s), J::Null),
            (Err(e), true) => acc.violation(i, None, format!("Tag::try_from({:?}) rejects a valid name: {}", s, e), J::Null),
            _ => {}
        }
        if let Ok(t) = got {
            acc.inc("strings_accepted");
            let name = rendered(&t);
            // known name in any case -> canonical spelling; unknown -> verbatim
            match named.iter().find(|(_, n)| n.eq_ignore_ascii_case(s)) {
                Some((nt, n)) => {
                    if name != n.as_bytes() || t != *nt {
                        acc.violation(i, None, format!("Tag::try_from({:?}) = {:?} (name {:?}), expected the canonical {:?}", s, t, String::from_utf8_lossy(&name), n), J::Null);
                    }
                }
                None => {
                    if name != s.as_bytes() {
                        acc.violation(i, None, format!("Tag::try_from({:?}) has protocol name {:?}", s, String::from_utf8_lossy(&name)), J::Null);
                    }
                }
            }
            // parsing its own protocol name gives back an equal tag
            match std::str::from_utf8(&name).ok().and_then(|n| Tag::try_from(n).ok()) {
                Some(back) if back == t => {}
                other => acc.violation(i, None, format!("parsing the protocol name of {:?} gives {:?}", t, other), J::Null),
            }
        } else {
            acc.inc("strings_rejected");
        }
    }
}
