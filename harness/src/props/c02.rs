//! C02 — parsed responses do not depend on read segmentation (metamorphic oracle + hook monitor).

use crate::refmodel::gen;
use crate::refmodel::wire::{encode_session, Item};
use crate::sim::wirerun::{run, Flavour, RunSpec, Seg, StreamEnd, GREETING};
use crate::util::acc::Acc;
use crate::util::json::J;
use crate::util::rng::{hash_bytes, mix, Rng};
use crate::util::Cfg;
use crate::{Meta, Property};

pub struct C02;

pub fn gen_stream(r: &mut Rng, i: u64, small: bool) -> (String, Vec<u8>) {
    if i % 50 == 49 && !small {
        let s = gen::gen_huge_session(r);
        return ("huge-binary".into(), encode_session(&s).bytes);
    }
    if i % 16 == 5 && !small {
        // A stream whose total length lands on / next to the size of the receive buffer and its doublings, made of
        // complete responses, after which the peer stays connected and silent: the read that fills the buffer to the
        // brim also completes the last response (run with a stream end that is an error, not EOF)
        const EDGES: &[usize] = &[4096, 8192, 16384, 32768];
        let edge = EDGES[r.below(if i % 32 == 5 { 2 } else { EDGES.len() })];
        // (the buffer may or may not have been rewound behind the greeting: lengths around both)
        let total = edge - *r.pick(&[0usize, 0, 0, 1, 2, GREETING.len(), GREETING.len() + 1]) + *r.pick(&[0usize, 0, 0, 0, 1]);
        let mut body = Vec::new();
        for _ in 0..r.below(3) {
            body.extend_from_slice(b"a: 1\nOK\n");
        }
        if r.chance(1, 3) {
            body.extend_from_slice(b"ACK [50@0] {play} no such song\n");
        }
        let n = total - body.len() - 9;
        if r.chance(1, 3) {
            // ... as a binary part: `binary: N\n` + N bytes + `\nOK\n`
            let digits = format!("{}", n).len();
            let nb = total - body.len() - (8 + digits + 1) - 4;
            let nb = if format!("{}", nb).len() == digits { nb } else { nb - 1 };
            body.extend_from_slice(format!("binary: {}\n", nb).as_bytes());
            body.extend(std::iter::repeat(0xABu8).take(nb));
            body.extend_from_slice(b"\nOK\n");
        } else {
            body.extend_from_slice(b"pad: ");
            body.extend(std::iter::repeat(b'x').take(n));
            body.extend_from_slice(b"\nOK\n");
        }
        return ("exact-fill".into(), body);
    }
    if i % 16 == 13 && !small {
        // Thousands of very short lines in one response (a big `list` / `listall` reply), behind a response that has
        // already made the receive buffer grow, so that a single read carries far more than a thousand lines; then the
        // peer stays silent. Everything that was delivered must come out without another read.
        let mut body = Vec::new();
        if r.chance(2, 3) {
            body.extend_from_slice(b"big: ");
            body.extend(std::iter::repeat(b'y').take(r.range(5000, 12000)));
            body.extend_from_slice(b"\nOK\n");
        }
        let n = r.range(1100, 3000);
        let line: &[u8] = *r.pick(&[&b"a: \n"[..], b"a: 1\n", b"file: x\n", b"Artist: ab\n", b"list_OK\n", b"a: 1\nlist_OK\n"]);
        for _ in 0..n {
            body.extend_from_slice(line);
        }
        body.extend_from_slice(b"OK\n");
        if r.chance(1, 2) {
            body.extend_from_slice(b"b: 2\nOK\n");
        }
        return ("many-short-lines".into(), body);
    }
    let kind = if i % 10 == 9 { 100 } else { r.below(100) };
    if kind < 40 {
        let s = gen::gen_session(r, 6);
        ("encoded".into(), encode_session(&s).bytes)
    } else if kind < 55 && !small {
        let s = gen::gen_edge_session(r);
        ("buffer-edge".into(), encode_session(&s).bytes)
    } else if kind < 80 {
        let s = gen::gen_session(r, 4);
        ("mutated".into(), gen::mutate(r, &encode_session(&s).bytes))
    } else if kind < 90 {
        ("dictionary".into(), gen::dictionary_stream(r))
    } else if kind < 100 {
        let n = if r.chance(1, 5) { r.range(1000, 20000) } else { r.below(200) };
        ("random".into(), r.bytes(n))
    } else {
        // directed: buffer edge, every 10th case
        let s = gen::gen_edge_session(r);
        ("buffer-edge".into(), encode_session(&s).bytes)
    }
}

fn items_summary(items: &[Item]) -> J {
    J::Arr(
        items
            .iter()
            .map(|i| match i {
                Item::Resp(r) => J::Str(format!(
                    "response(frames={}, fields={}, binary={}B, error={})",
                    r.frames.len(),
                    r.frames.iter().map(|f| f.fields.len()).sum::<usize>(),
                    r.frames.iter().map(|f| f.binary.as_ref().map(|b| b.len()).unwrap_or(0)).sum::<usize>(),
                    r.error.is_some()
                )),
                other => other.to_json(),
            })
            .collect(),
    )
}

fn first_diff(a: &[Item], b: &[Item]) -> String {
    for (i, (x, y)) in a.iter().zip(b.iter()).enumerate() {
        if x != y {
            let cut = |s: String| if s.len() > 400 { format!("{}...[{} bytes]", s.chars().take(400).collect::<String>(), s.len()) } else { s };
            return format!("item {} differs: reference {} vs {}", i, cut(x.to_json().render_compact()), cut(y.to_json().render_compact()));
        }
    }
    format!("lengths differ: reference {} items vs {}", a.len(), b.len())
}

impl Property for C02 {
    fn id(&self) -> &'static str {
        "C02"
    }
    fn cases(&self, cfg: &Cfg) -> u64 {
        cfg.tier.pick(1_500, 20_000)
    }
    fn run_case(&self, cfg: &Cfg, i: u64, acc: &mut Acc) {
        let mut r = Rng::keyed(&[cfg.seed, 2, i]);
        let (label, body) = gen_stream(&mut r, i, false);
        let end = if label == "many-short-lines" && i % 32 != 13 {
            StreamEnd::Eof
        } else if label == "exact-fill" || label == "many-short-lines" {
            // the peer stays silent: asking for more bytes than were sent does not return (stand-in: a timeout error)
            StreamEnd::Error(std::io::ErrorKind::TimedOut)
        } else if r.chance(1, 8) { StreamEnd::Error(*r.pick(&[std::io::ErrorKind::ConnectionReset, std::io::ErrorKind::UnexpectedEof, std::io::ErrorKind::TimedOut, std::io::ErrorKind::Other])) } else { StreamEnd::Eof };
        let shash = hash_bytes(&body);
        acc.inc("streams");
        acc.inc(&format!("streams_{}", label));
        acc.max("stream_len", body.len() as u64);

        let refspec = RunSpec { greeting: GREETING, body: &body, seg: &Seg::Whole, end: end.clone(), flavour: Flavour::Sync, pending_p: 0, pending_seed: 0, max_responses: 64, keep_alive: true };
        let reference = run(&refspec);
        acc.inc("evaluations");
        acc.count("probes", reference.probe_count as u64);
        let complete = reference.items.iter().filter(|i| matches!(i, Item::Resp(_))).count();
        for hv in &reference.hook_violations {
            acc.violation(i, None, format!("hook invariant (reference run): {}", hv), J::obj().set("stream", J::hex(&body)).set("label", label.clone()));
        }
        if label == "exact-fill" || label == "many-short-lines" {
            // this stream is made of complete responses only: all of them must come out before the peer's silence is noticed
            let want = body.windows(4).filter(|w| w == b"\nOK\n").count() + body.windows(5).filter(|w| w == b"ACK [").count();
            let got = reference.items.iter().filter(|i| matches!(i, Item::Resp(_))).count();
            if got != want || !matches!(reference.items.last(), Some(Item::ErrIo(_)) | Some(Item::CleanEnd)) {
                acc.violation(i, None, format!("a stream of {} complete responses ({} bytes, then the peer stays silent) read in one piece by the blocking connection gave {} responses, terminal {:?}", want, body.len(), got, reference.items.last().map(|x| x.kind())), J::obj().set("stream_len", body.len() as u64).set("observed", items_summary(&reference.items)));
            }
        }
        if label == "many-short-lines" {
            // ... and nothing inside them may go missing: every field line is a field of some frame, every list_OK closes a frame
            let want_fields = body.split(|&b| b == b'\n').filter(|l| l.windows(2).any(|w| w == b": ")).count();
            let want_frames_at_least = body.split(|&b| b == b'\n').filter(|l| *l == b"list_OK").count();
            let (mut got_fields, mut got_frames) = (0usize, 0usize);
            for it in &reference.items {
                if let Item::Resp(r) = it {
                    got_frames += r.frames.len();
                    got_fields += r.frames.iter().map(|f| f.fields.len()).sum::<usize>();
                }
            }
            if got_fields != want_fields || got_frames < want_frames_at_least {
                acc.violation(i, None, format!("a stream with {} field lines and {} list_OK lines was decoded into {} fields in {} frames", want_fields, want_frames_at_least, got_fields, got_frames), J::obj().set("stream_len", body.len() as u64).set("observed", items_summary(&reference.items)));
            }
        }
        if let Some(Item::Panic(m)) = reference.items.last() {
            // panics are C09's business, but a panic also makes the result segmentation dependent
            acc.inc("reference_panics");
            let _ = m;
        }
        match reference.items.last() {
            Some(it) => acc.inc(&format!("terminal_{}", it.kind())),
            None => {}
        }

        // segmentations
        let len = body.len();
        let mut segs: Vec<Seg> = Vec::new();
        if len <= 20_000 || cfg.tier == crate::util::Tier::Thorough {
            segs.push(Seg::Bytewise);
        }
        // everything in one read (for the async connection; on the blocking one this is the reference once more)
        segs.push(Seg::Whole);
        for _ in 0..8 {
            segs.push(Seg::random(&mut r, len, 32));
        }
        // two-way splits
        if len >= 2 {
            if len <= 1024 {
                for c in 1..len {
                    segs.push(Seg::Cuts(vec![c]));
                }
                acc.inc("streams_all_2way_splits_exhaustive");
            } else {
                let mut pts: Vec<usize> = Vec::new();
                for k in 0..8 {
                    let edge = 4096usize << k;
                    // the buffer edge counts from the start of the receive buffer, which is reused
                    // after the greeting: body offset == buffer offset for the first response
                    let lo = edge.saturating_sub(256).max(1);
                    let hi = (edge + 256).min(len - 1);
                    for c in lo..=hi.max(lo) {
                        if c < len {
                            pts.push(c);
                        }
                    }
                }
                let extra = if cfg.tier == crate::util::Tier::Quick { 48 } else { 96 };
                for _ in 0..extra {
                    pts.push(r.range(1, len - 1));
                }
                pts.sort_unstable();
                pts.dedup();
                // bound the cost on very long streams in the quick tier
                let cap = cfg.tier.pick(400, 2400);
                if pts.len() > cap {
                    let mut keep = Vec::with_capacity(cap);
                    let step = pts.len() as f64 / cap as f64;
                    for k in 0..cap {
                        keep.push(pts[(k as f64 * step) as usize]);
                    }
                    pts = keep;
                }
                for c in pts {
                    segs.push(Seg::Cuts(vec![c]));
                }
            }
        }

        // the greeting itself cut at every position (with the read boundary after its line feed kept, see the
        // assumptions): the connection that comes out of connect() must decode the same stream the same way
        if i % 8 == 3 {
            let g = GREETING.len();
            let mut whole = GREETING.to_vec();
            whole.extend_from_slice(&body);
            for c in 0..g {
                // c == 0: greeting byte by byte
                let mut cuts: Vec<usize> = if c == 0 { (1..=g).collect() } else { vec![c, g] };
                if let Seg::Cuts(more) = Seg::random(&mut r, len, 6) {
                    cuts.extend(more.into_iter().map(|x| x + g));
                }
                cuts.sort_unstable();
                cuts.dedup();
                cuts.retain(|&x| x > 0 && x < whole.len());
                let seg = Seg::Cuts(cuts);
                for flavour in [Flavour::Sync, Flavour::Async] {
                    let spec = RunSpec { greeting: b"", body: &whole, seg: &seg, end: end.clone(), flavour, pending_p: if c % 2 == 1 { 48 } else { 0 }, pending_seed: mix(&[cfg.seed, i, c as u64]), max_responses: 64, keep_alive: false };
                    let out = run(&spec);
                    acc.inc("evaluations");
                    acc.inc("greeting_segmentations");
                    if out.items != reference.items || out.version != reference.version {
                        acc.violation(
                            i,
                            None,
                            format!(
                                "result depends on how the GREETING is segmented: stream '{}', {} connection, greeting cut at {} (reads end at {}): version {:?} vs {:?}; {}",
                                label,
                                flavour.name(),
                                if c == 0 { "every byte".to_string() } else { c.to_string() },
                                seg.describe(),
                                out.version,
                                reference.version,
                                first_diff(&reference.items, &out.items)
                            ),
                            J::obj().set("stream_hex", J::hex(&whole[..whole.len().min(65536)])).set("segmentation", seg.describe()).set("flavour", flavour.name()).set("observed", items_summary(&out.items)),
                        );
                    }
                }
            }
        }

        let mut sampled = false;
        for (k, seg) in segs.iter().enumerate() {
            for flavour in [Flavour::Sync, Flavour::Async] {
                // the whole/sync combination is the reference itself
                let pending_p = if flavour == Flavour::Async && k % 2 == 1 { 64 } else { 0 };
                let spec = RunSpec {
                    greeting: GREETING,
                    body: &body,
                    seg,
                    end: end.clone(),
                    flavour,
                    pending_p,
                    pending_seed: mix(&[cfg.seed, i, k as u64]),
                    max_responses: 64,
                    keep_alive: k % 4 == 0,
                };
                let out = run(&spec);
                acc.inc("evaluations");
                acc.count("probes", out.probe_count as u64);
                acc.count("buffer_growths_seen", out.buffer_growths as u64);
                if out.stats.budget_exceeded {
                    // reading on after end of stream: reported by C09; here it would also show as a
                    // different terminal item
                    acc.inc("budget_exceeded_runs");
                }
                if complete >= 1 && seg.chunks(len) >= 2 {
                    acc.distinct("nontrivial", mix(&[shash, seg.hash(), flavour as u64]));
                }
                for hv in &out.hook_violations {
                    acc.violation(
                        i,
                        None,
                        format!("hook invariant violated ({} connection, {}): {}", flavour.name(), seg.describe(), hv),
                        J::obj().set("stream", J::hex(&body)).set("label", label.clone()).set("segmentation", seg.describe()),
                    );
                }
                if out.items != reference.items {
                    acc.violation(
                        i,
                        None,
                        format!(
                            "result depends on segmentation: stream '{}' ({} bytes), {} connection, {}: {}",
                            label,
                            len,
                            flavour.name(),
                            seg.describe(),
                            first_diff(&reference.items, &out.items)
                        ),
                        J::obj()
                            .set("stream_hex", J::hex(&body[..len.min(65536)]))
                            .set("stream_text", J::bytes(&body[..len.min(2048)]))
                            .set("segmentation", seg.describe())
                            .set("flavour", flavour.name())
                            .set("reference_whole_blocking", items_summary(&reference.items))
                            .set("observed", items_summary(&out.items)),
                    );
                } else if !sampled && acc.want_sample() && complete >= 1 && seg.chunks(len) >= 2 {
                    sampled = true;
                    acc.sample(
                        i,
                        J::obj()
                            .set("stream_kind", label.clone())
                            .set("stream_len", len)
                            .set("stream_head", J::bytes(&body[..len.min(120)]))
                            .set("segmentations_tried", segs.len())
                            .set("example_segmentation", seg.describe())
                            .set("result", items_summary(&out.items)),
                    );
                }
            }
        }
    }
    fn post(&self, cfg: &Cfg, acc: &mut Acc) {
        if cfg.tier == crate::util::Tier::Thorough || cfg.has_flag("--with-miri") {
            let j = super::miri::stage(cfg, "C02", acc);
            acc.notes.push(("miri_aux_stage".to_string(), j));
        }
    }
    fn meta(&self, _cfg: &Cfg, _acc: &Acc) -> Meta {
        Meta {
            level: "exploration",
            rule: "streams: encoder output of random abstract sessions, buffer-edge sessions (length 4096*2^k +-3), mutated, dictionary and random bytes, and (one in 16) 'exact-fill' streams of complete responses whose total length lands on or next to 4096*2^k, after which the peer stays silent (a timeout error instead of EOF: the read that fills the buffer to the brim also completes the last response, and all responses must come out before the silence is noticed); and (one in 16) responses of 1100-3000 very short lines (or as many `list_OK` frames) behind a response that made the buffer grow, so that one read carries thousands of lines, ended by EOF or by a silent peer; each stream is run whole on the blocking connection (reference) and then under byte-at-a-time, 8 random k-way (k<=32) and 2-way splits (every split point for streams <=1 KiB, a 512-wide window around each 2^k buffer edge plus random points otherwise) and everything in one read, on both connection flavours (async also with spurious Pending); for every 8th stream additionally the greeting line itself is cut at each of its positions and byte by byte (connect under segmentation), the rest cut at random; a case is a (stream, segmentation, flavour) triple; non-trivial = the stream yields >=1 complete response and the segmentation has >=2 chunks; distinct = by hash of (stream bytes, cut points, flavour)".into(),
            nontrivial_set: "nontrivial",
            assumptions: vec![
                "the greeting is delivered with a read boundary right after its line feed (connect discards bytes read beyond the greeting; nothing can follow the greeting in a real session before the client has spoken)".into(),
                "the whole-stream run on the blocking connection is the reference; agreement with the intended decoding is C03's job".into(),
                "hook monitor (feature verif-hooks): buffered < buffer length at every blocking read, byte conservation fed = consumed + buffered".into(),
            ],
            exhaustive: None,
            // (no floor on hook-derived counters: a refactoring that drops a probe must not turn into an alarm)
            floors: vec![("streams_buffer-edge".into(), 5), ("streams_exact-fill".into(), 20), ("streams_many-short-lines".into(), 20), ("streams_all_2way_splits_exhaustive".into(), 50)],
            extra: vec![],
        }
    }
}
