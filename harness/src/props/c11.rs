//! C11 — filter expressions mean on the server what was built on the client.

use mpd_client::commands::{self as cmds, Command as TypedCommand};
use mpd_client::filter::{Filter, Operator};
use mpd_client::tag::Tag;

use crate::refmodel::filter::{self as fref, Op, Tree};
use crate::refmodel::mpdspec;
use crate::refmodel::tokenizer::{self, split_lines, tokenize};
use crate::sim::capture::SyncCapture;
use crate::util::acc::Acc;
use crate::util::json::J;
use crate::util::panics;
use crate::util::rng::{hash_bytes, Rng};
use crate::util::Cfg;
use crate::{Meta, Property};

pub struct C11;

/// The harness's own description of how a filter is built (so it can be rebuilt with other values).
#[derive(Clone, Debug)]
pub enum Plan {
    New(usize, usize, String),    // tag index, operator index, value  -> Filter::new
    TagEq(usize, String),         // Filter::tag
    Exists(usize),                // Filter::tag_exists
    Absent(usize),                // Filter::tag_absent
    Negate(Box<Plan>),            // .negate()
    Bang(Box<Plan>),              // !filter
    And(Box<Plan>, Box<Plan>),    // a.and(b)
}

pub fn tag_table() -> Vec<(Tag, String)> {
    let mut v: Vec<(Tag, String)> = mpdspec::named_tags().into_iter().map(|(t, n)| (t, n.to_string())).collect();
    v.push((Tag::any(), "any".to_string()));
    for n in mpdspec::OTHER_TAG_NAMES {
        if *n != "any" {
            v.push((Tag::try_from(*n).expect("valid tag name"), n.to_string()));
        }
    }
    v
}

const OPS: &[(Operator, Op)] = &[(Operator::Equal, Op::Eq), (Operator::NotEqual, Op::Ne), (Operator::Contain, Op::Contains), (Operator::Match, Op::Match), (Operator::NotMatch, Op::NotMatch)];

thread_local! {
    /// While set, every intermediate filter of `Plan::build` is USED before it is built upon: rendered by reference into
    /// a throw-away raw command (as an application does that searches with a filter and later refines it) and, every
    /// other time, replaced by its clone. A filter means what its construction says, whatever happened to it before.
    pub static USE_BETWEEN_STEPS: std::cell::Cell<u32> = const { std::cell::Cell::new(0) };
}

fn used(f: Filter) -> Filter {
    USE_BETWEEN_STEPS.with(|u| {
        let n = u.get();
        if n == 0 {
            return f;
        }
        u.set(n + 1);
        let _ = mpd_protocol::command::Command::new("search").argument(&f);
        if n % 2 == 0 {
            let c = f.clone();
            let _ = mpd_protocol::command::Command::new("search").argument(&c);
            drop(f);
            c
        } else {
            f
        }
    })
}

impl Plan {
    pub fn build(&self, tags: &[(Tag, String)]) -> (Filter, Tree) {
        let (f, t) = self.build_step(tags);
        (used(f), t)
    }
    fn build_step(&self, tags: &[(Tag, String)]) -> (Filter, Tree) {
        match self {
            Plan::New(t, o, v) => (Filter::new(tags[*t].0.clone(), OPS[*o].0, v.clone()), Tree::Leaf { tag: tags[*t].1.clone(), op: OPS[*o].1, value: v.as_bytes().to_vec() }),
            Plan::TagEq(t, v) => (Filter::tag(tags[*t].0.clone(), v.clone()), Tree::Leaf { tag: tags[*t].1.clone(), op: Op::Eq, value: v.as_bytes().to_vec() }),
            // protocol document: (TAG != '') matches songs where the tag exists, (TAG == '') where it does not
            Plan::Exists(t) => (Filter::tag_exists(tags[*t].0.clone()), Tree::Leaf { tag: tags[*t].1.clone(), op: Op::Ne, value: Vec::new() }),
            Plan::Absent(t) => (Filter::tag_absent(tags[*t].0.clone()), Tree::Leaf { tag: tags[*t].1.clone(), op: Op::Eq, value: Vec::new() }),
            Plan::Negate(p) => {
                let (f, t) = p.build(tags);
                (f.negate(), Tree::Not(Box::new(t)))
            }
            Plan::Bang(p) => {
                let (f, t) = p.build(tags);
                (!f, Tree::Not(Box::new(t)))
            }
            Plan::And(a, b) => {
                let (fa, ta) = a.build(tags);
                let (fb, tb) = b.build(tags);
                (fa.and(fb), Tree::And(vec![ta, tb]))
            }
        }
    }
    pub fn values_mut<'a>(&'a mut self, out: &mut Vec<&'a mut String>) {
        match self {
            Plan::New(_, _, v) | Plan::TagEq(_, v) => out.push(v),
            Plan::Exists(_) | Plan::Absent(_) => {}
            Plan::Negate(p) | Plan::Bang(p) => p.values_mut(out),
            Plan::And(a, b) => {
                a.values_mut(out);
                b.values_mut(out);
            }
        }
    }
}

pub const SPECIAL: &[&str] = &["a", " ", "\"", "'", "\\", "(", ")", "!", "é"];

pub fn short_values() -> Vec<String> {
    let mut out = vec![String::new()];
    for a in SPECIAL {
        out.push(a.to_string());
    }
    for a in SPECIAL {
        for b in SPECIAL {
            out.push(format!("{}{}", a, b));
        }
    }
    for a in SPECIAL {
        for b in SPECIAL {
            for c in SPECIAL {
                out.push(format!("{}{}{}", a, b, c));
            }
        }
    }
    for w in ["AND", " AND ", "==", "!=", "contains", "contains ", "(Artist == \"x\")", ") AND (Album == \"", "=~", "\\\\", "\\\"", "it's", "a b c", "  ", "\t", "x\ty", "\r", "日本語", "😀"] {
        out.push(w.to_string());
    }
    out
}

fn gen_value(r: &mut Rng) -> String {
    match r.below(12) {
        0 => String::new(),
        1 => {
            let mut s = String::from("long ");
            while s.len() < 3000 {
                s.push_str("0123456789 abcdef ");
            }
            s.truncate(3000);
            s
        }
        2 | 3 => {
            let n = r.range(1, 10);
            (0..n).map(|_| *r.pick(SPECIAL)).collect::<Vec<_>>().concat()
        }
        4 => "AND".into(),
        _ => {
            let n = r.range(1, 12);
            (0..n).map(|_| (b'a' + r.below(26) as u8) as char).collect()
        }
    }
}

fn gen_plan(r: &mut Rng, depth: usize, ntags: usize) -> Plan {
    if depth == 0 || r.chance(2, 5) {
        let t = r.below(ntags);
        return match r.below(8) {
            0 => Plan::Exists(t),
            1 => Plan::Absent(t),
            2 | 3 => Plan::TagEq(t, gen_value(r)),
            _ => Plan::New(t, r.below(OPS.len()), gen_value(r)),
        };
    }
    match r.below(6) {
        0 => Plan::Negate(Box::new(gen_plan(r, depth - 1, ntags))),
        1 => Plan::Bang(Box::new(gen_plan(r, depth - 1, ntags))),
        _ => {
            // width: chain of ands
            let w = r.range(2, 6);
            let mut p = gen_plan(r, depth - 1, ntags);
            for _ in 1..w {
                let q = gen_plan(r, depth - 1, ntags);
                p = if r.chance(1, 4) { Plan::And(Box::new(q), Box::new(p)) } else { Plan::And(Box::new(p), Box::new(q)) };
            }
            p
        }
    }
}

/// Outcome of sending a filter through one command and parsing it back.
fn roundtrip(cap: &mut SyncCapture, filter: &Filter, which: usize) -> Result<Tree, String> {
    let (cmd, argidx) = match which {
        0 => (cmds::Find::new(filter.clone()).command(), 0),
        1 => (cmds::Count::new(filter.clone()).command(), 0),
        2 => (cmds::List::new(Tag::Album).filter(filter.clone()).command(), 1),
        // builder paths that carry the filter along with other arguments
        3 => (cmds::Count::new(filter.clone()).group_by(Tag::Artist).command(), 0),
        4 => (cmds::CountGrouped::new(Tag::Artist).filter(filter.clone()).command(), 0),
        5 => (cmds::List::new(Tag::Album).filter(filter.clone()).group_by([Tag::Date]).command(), 1),
        6 => (cmds::Find::new(filter.clone()).sort(Tag::Title).window(2..9).command(), 0),
        7 => (cmds::List::new(Tag::Album).group_by([Tag::Date, Tag::Genre]).filter(filter.clone()).command(), 1),
        // `filter` is documented to overwrite an earlier filter: the one set last is the one built
        8 => (cmds::List::new(Tag::Album).filter(Filter::tag(Tag::Genre, "overwritten")).filter(filter.clone()).command(), 1),
        9 => (cmds::CountGrouped::new(Tag::Artist).filter(Filter::tag(Tag::Genre, "overwritten")).filter(filter.clone()).command(), 0),
        _ => (cmds::List::new(Tag::Album).filter(Filter::tag_exists(Tag::Genre)).group_by([Tag::Date]).filter(filter.clone()).command(), 1),
    };
    let wire = cap.send(cmd);
    let (lines, rest) = split_lines(&wire);
    if lines.len() != 1 || !rest.is_empty() {
        return Err(format!("not one line: {:?}", String::from_utf8_lossy(&wire)));
    }
    let (name, args) = tokenize(lines[0]).map_err(|e| format!("tokenizer: {} on {:?}", e.name(), String::from_utf8_lossy(lines[0])))?;
    let want_name: &[u8] = [b"find" as &[u8], b"count", b"list", b"count", b"count", b"list", b"find", b"list", b"list", b"count", b"list"][which];
    let extra_args = [0usize, 0, 0, 2, 2, 2, 4, 4, 0, 2, 2][which];
    if name != want_name {
        return Err(format!("command word {:?}", String::from_utf8_lossy(&name)));
    }
    if args.len() != argidx + 1 + extra_args {
        return Err(format!("{} arguments instead of {}: {:?}", args.len(), argidx + 1 + extra_args, args.iter().map(|a| String::from_utf8_lossy(a).to_string()).collect::<Vec<_>>()));
    }
    fref::parse(&args[argidx]).map_err(|e| format!("filter grammar: {} on {:?}", e, String::from_utf8_lossy(&args[argidx])))
}

/// A value containing a line feed cannot be sent at all (C07). Such a filter must be REFUSED by every command that
/// takes it (today: `command()` panics) - or, should a later version find a way, sent faithfully. What must never
/// happen is a request that goes out with a different filter or with none: the server would then answer for
/// something the caller did not ask (for `list`/`count` without a filter: the whole database).
pub fn check_unsendable(cap: &mut SyncCapture, acc: &mut Acc, case: u64, plan: &Plan, tags: &[(Tag, String)]) {
    let built = panics::catch(|| plan.build(tags));
    let (filter, mirror) = match built {
        Ok(x) => x,
        Err(_) => {
            acc.inc("unsendable_refused");
            return;
        }
    };
    let want = mirror.normalize();
    for which in 0..11usize {
        acc.inc("evaluations");
        acc.inc("unsendable_filters_tried");
        match panics::catch(|| roundtrip(cap, &filter, which)) {
            Err(_) => acc.inc("unsendable_refused"),
            Ok(Ok(t)) if t.normalize() == want => acc.inc("unsendable_sent_faithfully"),
            Ok(other) => {
                let describe = match &other {
                    Ok(t) => format!("a request was written whose filter parses as {}", t.normalize().describe()),
                    Err(e) => format!("a request was written: {}", e),
                };
                acc.violation(
                    case,
                    None,
                    format!("a filter with a line feed in a value was neither refused nor sent faithfully: built {} but {}", want.describe(), describe),
                    J::obj().set("expected", want.describe()).set("observed", describe.clone()).set("path", which).set("plan", format!("{:?}", plan)),
                );
                return;
            }
        }
    }
}

pub fn check_plan(cap: &mut SyncCapture, acc: &mut Acc, case: u64, plan: &Plan, tags: &[(Tag, String)]) {
    let built = panics::catch(|| plan.build(tags));
    let (filter, mirror) = match built {
        Ok(x) => x,
        Err(p) => {
            acc.violation(case, None, format!("building the filter panicked: {}", p.0), J::obj().set("plan", format!("{:?}", plan)));
            return;
        }
    };
    let want = mirror.normalize();
    acc.inc("filters_checked");
    acc.max("tree_depth", want.depth() as u64);
    acc.max("tree_nodes", want.nodes() as u64);
    let mut vals = Vec::new();
    want.values(&mut vals);
    let special = vals.iter().any(|v| v.iter().any(|b| matches!(b, b' ' | b'"' | b'\'' | b'\\' | b'(' | b')' | b'!') || *b >= 0x80) || v.is_empty());
    for v in &vals {
        acc.distinct("values", hash_bytes(v));
    }
    if want.nodes() >= 2 || special {
        acc.distinct("nontrivial", hash_bytes(format!("{:?}", want).as_bytes()));
    }
    // find/count/list for every filter; the longer builder paths for a rotating one
    let paths: [usize; 4] = [0, 1, 2, 3 + (hash_bytes(format!("{:?}", want).as_bytes()) % 8) as usize];
    // one filter in three is built a second time with every intermediate filter rendered / cloned before it is built
    // upon, and sent once more: it must be the same expression (checked only when the plain pass agreed)
    let reused = if want.nodes() >= 2 && hash_bytes(format!("{:?}", want).as_bytes()) % 3 == 0 {
        USE_BETWEEN_STEPS.with(|u| u.set(1 + (case as u32 % 2)));
        let b = panics::catch(|| plan.build(tags));
        USE_BETWEEN_STEPS.with(|u| u.set(0));
        match b {
            Ok((f, _)) => Some(f),
            Err(p) => {
                acc.violation(case, None, format!("building the filter (intermediate filters rendered and cloned on the way) panicked: {}", p.0), J::obj().set("plan", format!("{:?}", plan)));
                return;
            }
        }
    } else {
        None
    };
    if let Some(f2) = &reused {
        acc.inc("filters_built_from_used_intermediates");
        let plain = panics::catch(|| roundtrip(cap, &filter, 0)).unwrap_or_else(|p| Err(format!("panic: {}", p.0)));
        let again = panics::catch(|| roundtrip(cap, f2, 0)).unwrap_or_else(|p| Err(format!("panic: {}", p.0)));
        if let (Ok(a), Ok(b)) = (&plain, &again) {
            if a.normalize() == want && b.normalize() != want {
                acc.violation(
                    case,
                    None,
                    format!("a filter built from intermediate filters that had been rendered / cloned before denotes something else: built {} but parsed as {}", want.describe(), b.normalize().describe()),
                    J::obj().set("expected", want.describe()).set("observed", b.normalize().describe()).set("plan", format!("{:?}", plan)),
                );
                return;
            }
        } else if plain.is_ok() && again.is_err() {
            acc.violation(case, None, format!("a filter built from used intermediates no longer parses: {:?}", again.err()), J::obj().set("expected", want.describe()).set("plan", format!("{:?}", plan)));
            return;
        }
    }
    for which in paths {
        acc.inc("evaluations");
        let got = panics::catch(|| roundtrip(cap, &filter, which)).unwrap_or_else(|p| Err(format!("panic: {}", p.0)));
        let ok = match &got {
            Ok(t) => t.normalize() == want,
            Err(_) => false,
        };
        if ok {
            acc.inc("roundtrip_ok");
            continue;
        }
        // ---- failure: attribute to known-finding classes by the values in the tree -------------
        let has_dq = vals.iter().any(|v| v.contains(&b'"'));
        let has_bs = vals.iter().any(|v| v.contains(&b'\\') && !v.contains(&b'"'));
        let describe = match &got {
            Ok(t) => format!("parsed as {}", t.normalize().describe()),
            Err(e) => e.clone(),
        };
        let detail = J::obj().set("expected", want.describe()).set("observed", describe.clone()).set("command", ["find", "count", "list", "count.group_by", "CountGrouped.filter", "list.filter.group_by", "find.sort.window", "list.group_by.filter", "list.filter.filter", "CountGrouped.filter.filter", "list.filter.group_by.filter"][which]).set("plan", format!("{:?}", plan));
        if !has_dq && !has_bs {
            acc.violation(case, None, format!("filter does not denote what was built: expected {} but {}", want.describe(), describe), detail);
            return;
        }
        // failure mode of the dquote class: rejected by tokenizer or grammar (never a different tree)
        // (a value that also contains a backslash can instead come out with different bytes)
        let any_bs = vals.iter().any(|v| v.contains(&b'\\'));
        if has_dq && !any_bs && got.is_ok() {
            acc.violation(case, None, format!("filter with a double quote in a value parsed to a different expression: expected {} but {}", want.describe(), describe), detail);
            return;
        }
        // neutralise the offending values class by class; the rest of the filter must then round-trip
        let neutralised_ok = |cap: &mut SyncCapture, dq: bool, bs: bool| -> bool {
            let mut p2 = plan.clone();
            {
                let mut vs = Vec::new();
                p2.values_mut(&mut vs);
                for v in vs {
                    let is_dq = v.contains('"');
                    let is_bs = v.contains('\\') && !is_dq;
                    if (dq && is_dq) || (bs && is_bs) {
                        *v = "v".to_string();
                    }
                }
            }
            let (f2, m2) = p2.build(tags);
            roundtrip(cap, &f2, which).map(|t| t.normalize()) == Ok(m2.normalize())
        };
        let sigs: &[&str] = if has_dq && neutralised_ok(cap, true, false) {
            &["C11/value-dquote"]
        } else if has_bs && neutralised_ok(cap, false, true) {
            &["C11/value-backslash"]
        } else if has_dq && has_bs && neutralised_ok(cap, true, true) {
            &["C11/value-dquote", "C11/value-backslash"]
        } else {
            acc.violation(case, None, format!("filter still wrong after neutralising values with quotes/backslashes: expected {} but {}", want.describe(), describe), detail);
            return;
        };
        for s in sigs {
            acc.violation(case, Some(s), format!("{}: {} -> {}", s, want.describe(), describe), detail.clone());
        }
        return;
    }
}

const BLOCK: u64 = 32;

impl Property for C11 {
    fn id(&self) -> &'static str {
        "C11"
    }
    fn selftest(&self) -> Result<(), String> {
        tokenizer::selftest()?;
        fref::selftest()
    }
    fn cases(&self, cfg: &Cfg) -> u64 {
        let nv = short_values().len() as u64;
        (nv + BLOCK - 1) / BLOCK + cfg.tier.pick(3_000, 60_000)
    }
    fn run_case(&self, cfg: &Cfg, i: u64, acc: &mut Acc) {
        let tags = tag_table();
        let mut cap = SyncCapture::new(usize::MAX);
        let vals = short_values();
        let nb = (vals.len() as u64 + BLOCK - 1) / BLOCK;
        if i < nb {
            let lo = (i * BLOCK) as usize;
            let hi = (lo + BLOCK as usize).min(vals.len());
            for (k, v) in vals[lo..hi].iter().enumerate() {
                acc.inc("exhaustive_short_values");
                let t = (lo + k) % tags.len();
                // as a lone leaf with every operator, negated, and in both positions of an AND
                for o in 0..OPS.len() {
                    check_plan(&mut cap, acc, i, &Plan::New(t, o, v.clone()), &tags);
                }
                check_plan(&mut cap, acc, i, &Plan::Negate(Box::new(Plan::TagEq(t, v.clone()))), &tags);
                check_plan(&mut cap, acc, i, &Plan::And(Box::new(Plan::TagEq(t, v.clone())), Box::new(Plan::Exists(0))), &tags);
                check_plan(&mut cap, acc, i, &Plan::And(Box::new(Plan::Absent(1)), Box::new(Plan::Bang(Box::new(Plan::TagEq(t, v.clone()))))), &tags);
            }
            return;
        }
        let mut r = Rng::keyed(&[cfg.seed, 11, i]);
        for _ in 0..BLOCK {
            let depth = r.range(0, 6);
            let plan = gen_plan(&mut r, depth, tags.len());
            // keep the rendered argument below MPD's 4 KiB line limit (not modelled)
            let mut p = plan.clone();
            let mut vs = Vec::new();
            p.values_mut(&mut vs);
            let total: usize = vs.iter().map(|v| v.len() + 40).sum();
            if total > 3500 {
                continue;
            }
            acc.inc("random_trees");
            check_plan(&mut cap, acc, i, &plan, &tags);
            if r.chance(1, 8) {
                // the same tree with a line feed put into one of its values
                let mut p = plan.clone();
                let mut vs = Vec::new();
                p.values_mut(&mut vs);
                if !vs.is_empty() {
                    let k = r.below(vs.len());
                    let v: &mut String = vs[k];
                    let at = (0..=v.len()).filter(|&x| v.is_char_boundary(x)).nth(r.below(v.chars().count() + 1)).unwrap_or(0);
                    v.insert_str(at, *r.pick(&["\n", "\n", "\r\n", "\nstatus\n"]));
                    drop(vs);
                    check_unsendable(&mut cap, acc, i, &p, &tags);
                }
            }
            if acc.want_sample() && depth >= 2 {
                let (f, m) = plan.build(&tags);
                let w = cap.send(cmds::Find::new(f).command());
                acc.sample(i, J::obj().set("mirror_tree", m.normalize().describe()).set("wire", J::bytes(&w[..w.len().min(400)])));
            }
        }
    }
    fn meta(&self, _cfg: &Cfg, _acc: &Acc) -> Meta {
        Meta {
            level: "exploration",
            rule: "EXHAUSTIVE: all 820 value strings of length <=3 over {a, space, double quote, single quote, backslash, (, ), !, e-acute} plus 19 words (AND, ==, contains, nested-expression look-alikes, tabs, CR, CJK, emoji), each as a leaf with all five operators, negated, and on both sides of an AND; plus random trees (depth <=6, AND chains of width 2-6 in both association orders, negate()/! mixes, tag_exists/tag_absent shorthands, 31 named tags + any + 9 other valid names, values incl. 3000-byte ones); every filter is sent through find, count and list and one of eight longer builder paths (Count::group_by, CountGrouped::filter, List::filter.group_by, Find::sort.window, List::group_by.filter, and three in which `filter` is called twice and the documented overwrite must leave the second filter), the wire line is tokenised by the MPD tokenizer port, the filter argument parsed by the port of MPD's ParseExpression and compared with the mirror tree modulo AND flattening and tag-name case; one filter in three (of those with >=2 nodes) is built a second time with every intermediate filter rendered by reference and/or cloned before it is negated / combined further, and must denote the same expression; one random tree in eight is tried again with a line feed inside one value, through all eleven builder paths: the command must be refused (panic) or sent faithfully, never written with another filter or without one; failing filters are attributed to known-finding classes by the values in the tree + failure mode and must round-trip once those values are neutralised; non-trivial = tree with >=2 nodes or a value with a special character or empty; distinct by normalised tree".into(),
            nontrivial_set: "nontrivial",
            assumptions: vec![
                "ports of MPD util/Tokenizer.cxx and song/Filter.cxx (ParseExpression, ExpectWord, ExpectQuoted, ParseStringFilter) are the trusted base; self-tested at start-up".into(),
                "MPD does not strip blanks after the closing parenthesis of an AND group, so an AND nested as first operand of an AND is rejected by the port (the library never emits that: it flattens)".into(),
                "pseudo tags with their own leaf syntax (base, modified-since, added-since, AudioFormat, prio) are not generated".into(),
            ],
            exhaustive: Some(true),
            floors: vec![("filters_built_from_used_intermediates".into(), 300), ("unsendable_filters_tried".into(), 1000), ("exhaustive_short_values".into(), 839), ("random_trees".into(), 1000), ("roundtrip_ok".into(), 5000)],
            extra: vec![("exhaustive_scope".into(), J::Str("short value strings x 8 placements; random trees are sampled".into()))],
        }
    }
}
