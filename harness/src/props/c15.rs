//! C15 — predefined commands render to the documented MPD request for all parameters.
//! Oracle: expectation table typed from the MPD protocol reference (command reference section),
//! applied to the line after tokenisation with the MPD tokenizer port.

use std::ops::Bound;
use std::time::Duration;

use mpd_client::commands::{self as c, Command as TypedCommand, ReplayGainMode, SeekMode, SingleMode, Song, SongId, SongPosition};
use mpd_client::tag::Tag;
use mpd_protocol::command::Command as RawCommand;

use super::c11::{tag_table, Plan};
use crate::refmodel::filter::{self as fref, Tree};
use crate::refmodel::mpdspec;
use crate::refmodel::tokenizer::{self, split_lines, tokenize};
use crate::sim::capture::SyncCapture;
use crate::util::acc::Acc;
use crate::util::json::J;
use crate::util::panics;
use crate::util::rng::{hash_bytes, mix, Rng};
use crate::util::Cfg;
use crate::{Meta, Property};

pub struct C15;

#[derive(Clone, Debug)]
pub enum ArgSpec {
    Int(u128),
    Range(Bound<usize>, Bound<usize>),
    /// a range argument of a command for which MPD also documents a single position (`playlistinfo`, `delete`, `move`,
    /// `playlistdelete`): a bare `N` denotes the one position N
    RangeOrPos(Bound<usize>, Bound<usize>),
    /// an OPTIONAL trailing range (`playlistinfo`, `shuffle`, `load NAME`) resp. `window` + range (`find`): when the
    /// Rust range selects everything the argument(s) may be left out, which denotes the same set
    OptRange(Bound<usize>, Bound<usize>, bool),
    Rel(char, u128),
    Secs(Duration),
    SignedSecs(char, Duration),
    Str(String),
    Filter(Tree),
    TagName(String),
}

pub struct Case {
    pub row: &'static str,
    pub build: Box<dyn Fn() -> RawCommand>,
    pub word: &'static str,
    pub args: Vec<ArgSpec>,
    pub boundary: bool,
}

pub const GRID: &[usize] = &[0, 1, 2, 99, 100, 101, 255, u32::MAX as usize, u32::MAX as usize + 1, usize::MAX - 1, usize::MAX];

fn durations(r: &mut Rng) -> Vec<Duration> {
    let mut v = vec![
        Duration::ZERO,
        Duration::from_nanos(1),
        Duration::from_nanos(499_999),
        Duration::from_micros(500),
        Duration::from_nanos(500_001),
        Duration::from_micros(999),
        Duration::from_millis(1),
        Duration::from_nanos(1_000_500_000),
        Duration::from_nanos(59_999_500_000),
        Duration::from_millis(1 << 32),
        Duration::from_secs(3600),
        Duration::from_nanos(1_499_999),
        Duration::from_nanos(2_345_670_000),
        // long durations with a millisecond part (single precision would lose it), and the top of the domain
        Duration::from_millis(18_017_001),
        Duration::from_millis(86_400_000 * 30 + 1),
        Duration::new(u32::MAX as u64, 999_500_000),
        Duration::from_secs(u64::MAX),
        Duration::new(u64::MAX, 999_000_000),
        Duration::new(u64::MAX, 999_499_999),
        Duration::new(u64::MAX, 999_500_000),
        Duration::new(u64::MAX, 999_999_998),
        Duration::MAX,
    ];
    for _ in 0..6 {
        v.push(Duration::from_nanos(r.next_u64() % 10_000_000_000_000));
    }
    v
}

const STRS: &[&str] = &["foo", "foo bar", "a\tb", "Ünïcödé/ß €.mp3", "x", "dir/sub dir/file name.flac", "日本語 😀", "", " ", "/", "dir/", "Artist/Album/", "a//", "./", "trailing blank ", " leading blank", "UPPER", "0", "-1", "file.mp3/"];

/// strings no request line can carry
const UNSENDABLE: &[&str] = &["a\nb", "trailing\n", "\nleading", "dir/\nclear\n", "cr lf\r\nx"];

fn parse_dec(s: &[u8]) -> Option<u128> {
    if s.is_empty() || !s.iter().all(|b| b.is_ascii_digit()) || (s.len() > 1 && s[0] == b'0') {
        return None;
    }
    std::str::from_utf8(s).ok()?.parse::<u128>().ok()
}

/// `123` or `123.456`: returns nanoseconds
fn parse_secs(s: &[u8]) -> Option<u128> {
    let t = std::str::from_utf8(s).ok()?;
    let (i, f) = match t.split_once('.') {
        Some((i, f)) => (i, f),
        None => (t, ""),
    };
    if i.is_empty() || !i.bytes().all(|b| b.is_ascii_digit()) || !f.bytes().all(|b| b.is_ascii_digit()) || f.len() > 9 {
        return None;
    }
    let ip: u128 = i.parse().ok()?;
    let mut fp: u128 = if f.is_empty() { 0 } else { f.parse().ok()? };
    for _ in f.len()..9 {
        fp *= 10;
    }
    Some(ip * 1_000_000_000 + fp)
}

fn check_secs(arg: &[u8], d: Duration) -> Result<(), String> {
    let ns = parse_secs(arg).ok_or_else(|| format!("{:?} is not a plain decimal number of seconds", String::from_utf8_lossy(arg)))?;
    let want = d.as_nanos();
    let diff = if ns > want { ns - want } else { want - ns };
    // half a millisecond of rounding (+ 1 us); beyond 2^43 s (278 000 years) a double - the type MPD itself parses the
    // number into - no longer resolves milliseconds, so one unit in its last place is allowed there instead
    let ulp = want >> 52;
    if diff > (500_000 + 1_000).max(ulp) {
        return Err(format!("{:?} is {} ns away from {:?} (more than the documented millisecond rounding)", String::from_utf8_lossy(arg), diff, d));
    }
    Ok(())
}

/// Does the rendered range denote the same set of positions as the Rust range (over usize)?
fn check_range(arg: &[u8], lo: Bound<usize>, hi: Bound<usize>) -> Result<(), String> {
    const TOP: u128 = usize::MAX as u128 + 1;
    let (a, b) = {
        let p = arg.iter().position(|&c| c == b':').ok_or_else(|| format!("{:?} is not a range (no colon)", String::from_utf8_lossy(arg)))?;
        let a = parse_dec(&arg[..p]).ok_or_else(|| format!("range start in {:?} is not a plain unsigned decimal", String::from_utf8_lossy(arg)))?;
        let b = if p + 1 == arg.len() { None } else { Some(parse_dec(&arg[p + 1..]).ok_or_else(|| format!("range end in {:?} is not a plain unsigned decimal", String::from_utf8_lossy(arg)))?) };
        (a, b)
    };
    let mpd_lo = a;
    let mpd_hi = b.unwrap_or(TOP);
    let (rust_lo, lo_saturates) = match lo {
        Bound::Included(s) => (s as u128, false),
        Bound::Excluded(s) => (s as u128 + 1, s == usize::MAX),
        Bound::Unbounded => (0, false),
    };
    let (rust_hi, hi_saturates) = match hi {
        Bound::Excluded(e) => (e as u128, false),
        Bound::Included(e) => (e as u128 + 1, e == usize::MAX),
        Bound::Unbounded => (TOP, false),
    };
    let rust_empty = rust_lo >= rust_hi;
    let mpd_empty = mpd_lo >= mpd_hi;
    if rust_empty {
        // any rendering MPD reads as empty or rejects (end < start); saturated start tolerated
        if mpd_empty || lo_saturates {
            return Ok(());
        }
        return Err(format!("empty Rust range rendered as non-empty {:?}", String::from_utf8_lossy(arg)));
    }
    let lo_ok = mpd_lo == rust_lo || (lo_saturates && mpd_lo == usize::MAX as u128);
    let hi_ok = mpd_hi == rust_hi || (hi_saturates && mpd_hi == usize::MAX as u128);
    if lo_ok && hi_ok {
        Ok(())
    } else {
        Err(format!("{:?} denotes [{}, {}) but the Rust range denotes [{}, {})", String::from_utf8_lossy(arg), mpd_lo, mpd_hi, rust_lo, rust_hi))
    }
}

fn check_arg(spec: &ArgSpec, arg: &[u8]) -> Result<(), String> {
    match spec {
        ArgSpec::Int(n) => match parse_dec(arg) {
            Some(v) if v == *n => Ok(()),
            _ => Err(format!("expected integer {} got {:?}", n, String::from_utf8_lossy(arg))),
        },
        ArgSpec::Range(lo, hi) | ArgSpec::OptRange(lo, hi, false) => check_range(arg, *lo, *hi),
        ArgSpec::RangeOrPos(lo, hi) | ArgSpec::OptRange(lo, hi, true) => {
            if !arg.contains(&b':') {
                if let Some(n) = parse_dec(arg) {
                    // the single position N is the range N:N+1
                    return check_range(format!("{}:{}", n, n + 1).as_bytes(), *lo, *hi).map_err(|e| format!("single position {} ({})", n, e));
                }
            }
            check_range(arg, *lo, *hi)
        }
        ArgSpec::Rel(sign, n) => {
            if arg.first() == Some(&(*sign as u8)) && parse_dec(&arg[1..]) == Some(*n) {
                Ok(())
            } else {
                Err(format!("expected {}{} got {:?}", sign, n, String::from_utf8_lossy(arg)))
            }
        }
        ArgSpec::Secs(d) => check_secs(arg, *d),
        ArgSpec::SignedSecs(sign, d) => {
            if arg.first() != Some(&(*sign as u8)) {
                return Err(format!("expected sign {} in {:?}", sign, String::from_utf8_lossy(arg)));
            }
            check_secs(&arg[1..], *d)
        }
        ArgSpec::Str(s) => {
            if arg == s.as_bytes() {
                Ok(())
            } else {
                Err(format!("expected {:?} got {:?}", s, String::from_utf8_lossy(arg)))
            }
        }
        ArgSpec::Filter(t) => match fref::parse(arg) {
            Ok(g) if g.normalize() == t.normalize() => Ok(()),
            Ok(g) => Err(format!("filter parsed as {} expected {}", g.normalize().describe(), t.normalize().describe())),
            Err(e) => Err(format!("filter rejected: {} ({:?})", e, String::from_utf8_lossy(arg))),
        },
        ArgSpec::TagName(n) => {
            if arg.eq_ignore_ascii_case(n.as_bytes()) {
                Ok(())
            } else {
                Err(format!("expected tag name {} got {:?}", n, String::from_utf8_lossy(arg)))
            }
        }
    }
}

fn is_boundary(n: usize) -> bool {
    n == 0 || n >= usize::MAX - 1 || n == u32::MAX as usize || n == u32::MAX as usize + 1 || n == 100 || n == 255
}

fn bounds_grid() -> Vec<(Bound<usize>, Bound<usize>)> {
    let mut out = Vec::new();
    let kinds = |v: usize| [Bound::Included(v), Bound::Excluded(v)];
    for &a in GRID {
        for &b in GRID {
            for lo in kinds(a) {
                for hi in kinds(b) {
                    out.push((lo, hi));
                }
            }
        }
        for lo in kinds(a) {
            out.push((lo, Bound::Unbounded));
        }
        for hi in kinds(a) {
            out.push((Bound::Unbounded, hi));
        }
    }
    out.push((Bound::Unbounded, Bound::Unbounded));
    out
}

fn pos_bound(b: Bound<usize>) -> Bound<SongPosition> {
    match b {
        Bound::Included(x) => Bound::Included(SongPosition(x)),
        Bound::Excluded(x) => Bound::Excluded(SongPosition(x)),
        Bound::Unbounded => Bound::Unbounded,
    }
}

macro_rules! case {
    ($out:ident, $row:expr, $word:expr, $args:expr, $boundary:expr, $build:expr) => {
        $out.push(Case { row: $row, build: Box::new($build), word: $word, args: $args, boundary: $boundary });
    };
}

/// Every constructor/builder path on the boundary grid (deterministic), plus seeded random values.
pub fn all_cases(seed: u64) -> Vec<Case> {
    use ArgSpec::*;
    let mut r = Rng::keyed(&[seed, 15]);
    let mut o: Vec<Case> = Vec::new();
    let tags = tag_table();
    let s = |x: &str| Str(x.to_string());

    // ---- argument-less commands ----------------------------------------------------------------
    case!(o, "ClearQueue", "clear", vec![], false, || c::ClearQueue.command());
    case!(o, "Next", "next", vec![], false, || c::Next.command());
    case!(o, "Ping", "ping", vec![], false, || c::Ping.command());
    case!(o, "Previous", "previous", vec![], false, || c::Previous.command());
    case!(o, "Stop", "stop", vec![], false, || c::Stop.command());
    case!(o, "ReplayGainStatus", "replay_gain_status", vec![], false, || c::ReplayGainStatus.command());
    case!(o, "Status", "status", vec![], false, || c::Status.command());
    case!(o, "Stats", "stats", vec![], false, || c::Stats.command());
    case!(o, "CurrentSong", "currentsong", vec![], false, || c::CurrentSong.command());
    case!(o, "GetPlaylists", "listplaylists", vec![], false, || c::GetPlaylists.command());
    case!(o, "GetEnabledTagTypes", "tagtypes", vec![], false, || c::GetEnabledTagTypes.command());
    case!(o, "ListChannels", "channels", vec![], false, || c::ListChannels.command());
    case!(o, "ReadChannelMessages", "readmessages", vec![], false, || c::ReadChannelMessages.command());
    case!(o, "Queue", "playlistinfo", vec![], false, || c::Queue.command());
    case!(o, "Queue::all", "playlistinfo", vec![], false, || c::Queue::all().command());
    case!(o, "Shuffle::all", "shuffle", vec![], false, || c::Shuffle::all().command());
    case!(o, "Play::current", "play", vec![], false, || c::Play::current().command());
    case!(o, "ListAllIn::root", "listallinfo", vec![], false, || c::ListAllIn::root().command());
    case!(o, "Update::new", "update", vec![], false, || c::Update::new().command());
    case!(o, "Update::default", "update", vec![], false, || c::Update::default().command());
    case!(o, "Rescan::new", "rescan", vec![], false, || c::Rescan::new().command());
    case!(o, "Rescan::default", "rescan", vec![], false, || c::Rescan::default().command());
    case!(o, "TagTypes::enable_all", "tagtypes", vec![s("all")], false, || c::TagTypes::enable_all().command());
    case!(o, "TagTypes::disable_all", "tagtypes", vec![s("clear")], false, || c::TagTypes::disable_all().command());

    // ---- one string -------------------------------------------------------------------------------
    for &st in STRS {
        let b = st.contains(' ') || !st.is_ascii();
        case!(o, "ClearPlaylist", "playlistclear", vec![s(st)], b, move || c::ClearPlaylist(st).command());
        case!(o, "DeletePlaylist", "rm", vec![s(st)], b, move || c::DeletePlaylist(st).command());
        case!(o, "SaveQueueAsPlaylist", "save", vec![s(st)], b, move || c::SaveQueueAsPlaylist(st).command());
        case!(o, "SubscribeToChannel", "subscribe", vec![s(st)], b, move || c::SubscribeToChannel(st).command());
        case!(o, "UnsubscribeFromChannel", "unsubscribe", vec![s(st)], b, move || c::UnsubscribeFromChannel(st).command());
        case!(o, "GetPlaylist", "listplaylistinfo", vec![s(st)], b, move || c::GetPlaylist(st).command());
        // (the empty directory IS the root, for which the argument may be omitted or sent empty: not judged)
        if !st.is_empty() {
            case!(o, "ListAllIn::directory", "listallinfo", vec![s(st)], b, move || c::ListAllIn::directory(st).command());
        }
        // (MPD treats the empty path and `/` as the root of the library, for which the argument may also be omitted: not judged)
        if !st.is_empty() && st != "/" {
            case!(o, "Update::uri", "update", vec![s(st)], b, move || c::Update::new().uri(st).command());
            case!(o, "Rescan::uri", "rescan", vec![s(st)], b, move || c::Rescan::new().uri(st).command());
        }
        case!(o, "Add::uri", "addid", vec![s(st)], b, move || c::Add::uri(st).command());
        case!(o, "StickerList", "sticker", vec![s("list"), s("song"), s(st)], b, move || c::StickerList::new(st).command());
        case!(o, "LoadPlaylist::name", "load", vec![s(st)], b, move || c::LoadPlaylist::name(st).command());
        for &st2 in STRS {
            case!(o, "SendChannelMessage", "sendmessage", vec![s(st), s(st2)], b, move || c::SendChannelMessage::new(st, st2).command());
            case!(o, "RenamePlaylist", "rename", vec![s(st), s(st2)], b, move || c::RenamePlaylist::new(st, st2).command());
            case!(o, "AddToPlaylist", "playlistadd", vec![s(st), s(st2)], b, move || c::AddToPlaylist::new(st, st2).command());
            case!(o, "StickerGet", "sticker", vec![s("get"), s("song"), s(st), s(st2)], b, move || c::StickerGet::new(st, st2).command());
            case!(o, "StickerDelete", "sticker", vec![s("delete"), s("song"), s(st), s(st2)], b, move || c::StickerDelete::new(st, st2).command());
            case!(o, "StickerFind", "sticker", vec![s("find"), s("song"), s(st), s(st2)], b, move || c::StickerFind::new(st, st2).command());
            case!(o, "StickerFind::where_eq", "sticker", vec![s("find"), s("song"), s(st), s(st2), s("="), s(st)], b, move || c::StickerFind::new(st, st2).where_eq(st).command());
            case!(o, "StickerFind::where_gt", "sticker", vec![s("find"), s("song"), s(st), s(st2), s(">"), s(st)], b, move || c::StickerFind::new(st, st2).where_gt(st).command());
            case!(o, "StickerFind::where_lt", "sticker", vec![s("find"), s("song"), s(st), s(st2), s("<"), s(st)], b, move || c::StickerFind::new(st, st2).where_lt(st).command());
            case!(o, "StickerFind::where_* overwrites", "sticker", vec![s("find"), s("song"), s(st), s(st2), s("<"), s(st2)], b, move || c::StickerFind::new(st, st2).where_eq(st).where_lt(st2).command());
            case!(o, "StickerSet", "sticker", vec![s("set"), s("song"), s(st), s(st2), s(st)], b, move || c::StickerSet::new(st, st2, st).command());
        }
    }
    // ---- strings that cannot be sent (line feed inside): refused, or sent faithfully - never altered or dropped ------
    for &st in UNSENDABLE {
        case!(o, "LF: ClearPlaylist", "playlistclear", vec![s(st)], true, move || c::ClearPlaylist(st).command());
        case!(o, "LF: DeletePlaylist", "rm", vec![s(st)], true, move || c::DeletePlaylist(st).command());
        case!(o, "LF: SaveQueueAsPlaylist", "save", vec![s(st)], true, move || c::SaveQueueAsPlaylist(st).command());
        case!(o, "LF: SubscribeToChannel", "subscribe", vec![s(st)], true, move || c::SubscribeToChannel(st).command());
        case!(o, "LF: UnsubscribeFromChannel", "unsubscribe", vec![s(st)], true, move || c::UnsubscribeFromChannel(st).command());
        case!(o, "LF: GetPlaylist", "listplaylistinfo", vec![s(st)], true, move || c::GetPlaylist(st).command());
        case!(o, "LF: ListAllIn::directory", "listallinfo", vec![s(st)], true, move || c::ListAllIn::directory(st).command());
        case!(o, "LF: Update::uri", "update", vec![s(st)], true, move || c::Update::new().uri(st).command());
        case!(o, "LF: Rescan::uri", "rescan", vec![s(st)], true, move || c::Rescan::new().uri(st).command());
        case!(o, "LF: Add::uri", "addid", vec![s(st)], true, move || c::Add::uri(st).command());
        case!(o, "LF: StickerList", "sticker", vec![s("list"), s("song"), s(st)], true, move || c::StickerList::new(st).command());
        case!(o, "LF: LoadPlaylist::name", "load", vec![s(st)], true, move || c::LoadPlaylist::name(st).command());
        for (a, b2) in [(st, "ok"), ("ok", st)] {
            case!(o, "LF: SendChannelMessage", "sendmessage", vec![s(a), s(b2)], true, move || c::SendChannelMessage::new(a, b2).command());
            case!(o, "LF: RenamePlaylist", "rename", vec![s(a), s(b2)], true, move || c::RenamePlaylist::new(a, b2).command());
            case!(o, "LF: AddToPlaylist", "playlistadd", vec![s(a), s(b2)], true, move || c::AddToPlaylist::new(a, b2).command());
            case!(o, "LF: StickerGet", "sticker", vec![s("get"), s("song"), s(a), s(b2)], true, move || c::StickerGet::new(a, b2).command());
            case!(o, "LF: StickerDelete", "sticker", vec![s("delete"), s("song"), s(a), s(b2)], true, move || c::StickerDelete::new(a, b2).command());
            case!(o, "LF: StickerFind", "sticker", vec![s("find"), s("song"), s(a), s(b2)], true, move || c::StickerFind::new(a, b2).command());
            case!(o, "LF: StickerFind::where_eq", "sticker", vec![s("find"), s("song"), s("ok"), s(a), s("="), s(b2)], true, move || c::StickerFind::new("ok", a).where_eq(b2).command());
            case!(o, "LF: StickerSet", "sticker", vec![s("set"), s("song"), s(a), s(b2), s(a)], true, move || c::StickerSet::new(a, b2, a).command());
        }
    }
    // ---- booleans, enums ------------------------------------------------------------------------
    for b in [false, true] {
        let v = Int(b as u128);
        case!(o, "SetConsume", "consume", vec![v.clone()], true, move || c::SetConsume(b).command());
        case!(o, "SetPause", "pause", vec![v.clone()], true, move || c::SetPause(b).command());
        case!(o, "SetRandom", "random", vec![v.clone()], true, move || c::SetRandom(b).command());
        case!(o, "SetRepeat", "repeat", vec![v.clone()], true, move || c::SetRepeat(b).command());
    }
    for (m, w) in [(SingleMode::Disabled, "0"), (SingleMode::Enabled, "1"), (SingleMode::Oneshot, "oneshot")] {
        case!(o, "SetSingle", "single", vec![s(w)], true, move || c::SetSingle(m).command());
    }
    for (m, w) in [(ReplayGainMode::Off, "off"), (ReplayGainMode::Track, "track"), (ReplayGainMode::Album, "album"), (ReplayGainMode::Auto, "auto")] {
        case!(o, "SetReplayGainMode", "replay_gain_mode", vec![s(w)], true, move || c::SetReplayGainMode(m).command());
    }
    // ---- volume: exhaustive over u8 ---------------------------------------------------------------
    for v in 0..=255u8 {
        case!(o, "SetVolume", "setvol", vec![Int((v.min(100)) as u128)], v >= 99, move || c::SetVolume(v).command());
    }
    // ---- integers on the grid ---------------------------------------------------------------------
    for &n in GRID {
        let b = is_boundary(n);
        let id = n as u64;
        case!(o, "Queue::song(Position)", "playlistinfo", vec![Int(n as u128)], b, move || c::Queue::song(SongPosition(n)).command());
        case!(o, "Queue::song(Id)", "playlistid", vec![Int(id as u128)], b, move || c::Queue::song(SongId(id)).command());
        case!(o, "QueueRange::song(Position)", "playlistinfo", vec![Int(n as u128)], b, move || c::QueueRange::song(Song::Position(SongPosition(n))).command());
        case!(o, "QueueRange::song(Id)", "playlistid", vec![Int(id as u128)], b, move || c::QueueRange::song(Song::Id(SongId(id))).command());
        case!(o, "Play::song(Position)", "play", vec![Int(n as u128)], b, move || c::Play::song(SongPosition(n)).command());
        case!(o, "Play::song(Id)", "playid", vec![Int(id as u128)], b, move || c::Play::song(SongId(id)).command());
        case!(o, "Delete::id", "deleteid", vec![Int(id as u128)], b, move || c::Delete::id(SongId(id)).command());
        case!(o, "Delete::position", "delete", vec![RangeOrPos(Bound::Included(n), Bound::Included(n))], b, move || c::Delete::position(SongPosition(n)).command());
        case!(o, "SetBinaryLimit", "binarylimit", vec![Int(n as u128)], b, move || c::SetBinaryLimit(n).command());
        case!(o, "AlbumArt::offset", "albumart", vec![s("a b.mp3"), Int(n as u128)], b, move || c::AlbumArt::new("a b.mp3").offset(n).command());
        case!(o, "AlbumArtEmbedded::offset", "readpicture", vec![s("a b.mp3"), Int(n as u128)], b, move || c::AlbumArtEmbedded::new("a b.mp3").offset(n).command());
        case!(o, "Add::at", "addid", vec![s("u v"), Int(n as u128)], b, move || c::Add::uri("u v").at(n).command());
        case!(o, "Add::at(SongPosition)", "addid", vec![s("u"), Int(n as u128)], b, move || c::Add::uri("u").at(SongPosition(n)).command());
        case!(o, "Add::before_current", "addid", vec![s("u"), Rel('-', n as u128)], b, move || c::Add::uri("u").before_current(n).command());
        case!(o, "Add::after_current", "addid", vec![s("u"), Rel('+', n as u128)], b, move || c::Add::uri("u").after_current(n).command());
        case!(o, "Add::at overwritten by after_current", "addid", vec![s("u"), Rel('+', n as u128)], b, move || c::Add::uri("u").at(3usize).after_current(n).command());
        case!(o, "AddToPlaylist::at", "playlistadd", vec![s("p l"), s("u"), Int(n as u128)], b, move || c::AddToPlaylist::new("p l", "u").at(n).command());
        case!(o, "RemoveFromPlaylist::position", "playlistdelete", vec![s("p l"), Int(n as u128)], b, move || c::RemoveFromPlaylist::position("p l", n).command());
        for &m in GRID {
            let b = b || is_boundary(m);
            let mid = m as u64;
            case!(o, "MoveInPlaylist", "playlistmove", vec![s("p"), Int(n as u128), Int(m as u128)], b, move || c::MoveInPlaylist::new("p", n, m).command());
            case!(o, "Move::id.to_position", "moveid", vec![Int(id as u128), Int(m as u128)], b, move || c::Move::id(SongId(id)).to_position(SongPosition(m)).command());
            case!(o, "Move::id.after_current", "moveid", vec![Int(id as u128), Rel('+', m as u128)], b, move || c::Move::id(SongId(id)).after_current(m).command());
            case!(o, "Move::id.before_current", "moveid", vec![Int(id as u128), Rel('-', m as u128)], b, move || c::Move::id(SongId(id)).before_current(m).command());
            case!(o, "Move::position.to_position", "move", vec![RangeOrPos(Bound::Included(n), Bound::Included(n)), Int(m as u128)], b, move || c::Move::position(SongPosition(n)).to_position(SongPosition(m)).command());
            case!(o, "Move::position.after_current", "move", vec![RangeOrPos(Bound::Included(n), Bound::Included(n)), Rel('+', m as u128)], b, move || c::Move::position(SongPosition(n)).after_current(m).command());
            case!(o, "Move::position.before_current", "move", vec![RangeOrPos(Bound::Included(n), Bound::Included(n)), Rel('-', m as u128)], b, move || c::Move::position(SongPosition(n)).before_current(m).command());
            let _ = mid;
        }
    }
    // ---- ranges: all 9 bound-kind combinations over the grid ------------------------------------
    for (lo, hi) in bounds_grid() {
        let b = true;
        let (plo, phi) = (pos_bound(lo), pos_bound(hi));
        case!(o, "Queue::range", "playlistinfo", vec![OptRange(lo, hi, true)], b, move || c::Queue::range((plo, phi)).command());
        case!(o, "QueueRange::range", "playlistinfo", vec![OptRange(lo, hi, true)], b, move || c::QueueRange::range((plo, phi)).command());
        case!(o, "Shuffle::range", "shuffle", vec![OptRange(lo, hi, false)], b, move || c::Shuffle::range((plo, phi)).command());
        case!(o, "Delete::range", "delete", vec![RangeOrPos(lo, hi)], b, move || c::Delete::range((plo, phi)).command());
        case!(o, "RemoveFromPlaylist::range", "playlistdelete", vec![s("p l"), RangeOrPos(lo, hi)], b, move || c::RemoveFromPlaylist::range("p l", (plo, phi)).command());
        case!(o, "LoadPlaylist::range", "load", vec![s("p l"), OptRange(lo, hi, false)], b, move || c::LoadPlaylist::name("p l").range((lo, hi)).command());
        let plan = Plan::TagEq(0, "x y".into());
        let (f, t) = plan.build(&tags);
        let f2 = f.clone();
        case!(o, "Find::window", "find", vec![Filter(t.clone()), s("window"), OptRange(lo, hi, false)], b, move || c::Find::new(f.clone()).window((lo, hi)).command());
        case!(o, "Find::sort.window", "find", vec![Filter(t.clone()), s("sort"), TagName("Title".into()), s("window"), OptRange(lo, hi, false)], b, move || c::Find::new(f2.clone()).sort(Tag::Title).window((lo, hi)).command());
        if hi != Bound::Unbounded {
            case!(o, "Move::range.to_position", "move", vec![RangeOrPos(lo, hi), Int(7)], b, move || c::Move::range((plo, phi)).to_position(SongPosition(7)).command());
            case!(o, "Move::range.after_current", "move", vec![RangeOrPos(lo, hi), Rel('+', 0)], b, move || c::Move::range((plo, phi)).after_current(0).command());
            case!(o, "Move::range.before_current", "move", vec![RangeOrPos(lo, hi), Rel('-', usize::MAX as u128)], b, move || c::Move::range((plo, phi)).before_current(usize::MAX).command());
        }
    }
    // native Rust range syntaxes (RangeBounds impls other than the tuple)
    case!(o, "Queue::range(a..b)", "playlistinfo", vec![OptRange(Bound::Included(3), Bound::Excluded(18), true)], false, || c::Queue::range(SongPosition(3)..SongPosition(18)).command());
    case!(o, "Queue::range(a..=b)", "playlistinfo", vec![OptRange(Bound::Included(3), Bound::Included(18), true)], false, || c::Queue::range(SongPosition(3)..=SongPosition(18)).command());
    case!(o, "Queue::range(a..)", "playlistinfo", vec![OptRange(Bound::Included(3), Bound::Unbounded, true)], false, || c::Queue::range(SongPosition(3)..).command());
    case!(o, "Queue::range(..b)", "playlistinfo", vec![OptRange(Bound::Unbounded, Bound::Excluded(18), true)], false, || c::Queue::range(..SongPosition(18)).command());
    case!(o, "Queue::range(..=MAX)", "playlistinfo", vec![OptRange(Bound::Unbounded, Bound::Included(usize::MAX), true)], true, || c::Queue::range(..=SongPosition(usize::MAX)).command());
    case!(o, "Queue::range(..)", "playlistinfo", vec![OptRange(Bound::Unbounded, Bound::Unbounded, true)], false, || c::Queue::range(..).command());
    case!(o, "Find::window(a..b)", "find", vec![Filter(Plan::Exists(2).build(&tags).1), s("window"), Range(Bound::Included(0), Bound::Excluded(50))], false, {
        let f = Plan::Exists(2).build(&tags).0;
        move || c::Find::new(f.clone()).window(0..50).command()
    });
    // ---- durations --------------------------------------------------------------------------------
    for d in durations(&mut r) {
        let b = d.subsec_nanos() % 1_000_000 != 0 || d.is_zero();
        case!(o, "Crossfade", "crossfade", vec![Int(d.as_secs() as u128)], b, move || c::Crossfade(d).command());
        case!(o, "SeekTo(Position)", "seek", vec![Int(5), Secs(d)], b, move || c::SeekTo(Song::Position(SongPosition(5)), d).command());
        case!(o, "SeekTo(Id)", "seekid", vec![Int(u64::MAX as u128), Secs(d)], b, move || c::SeekTo(Song::Id(SongId(u64::MAX)), d).command());
        case!(o, "Seek(Absolute)", "seekcur", vec![Secs(d)], b, move || c::Seek(SeekMode::Absolute(d)).command());
        case!(o, "Seek(Forward)", "seekcur", vec![SignedSecs('+', d)], b, move || c::Seek(SeekMode::Forward(d)).command());
        case!(o, "Seek(Backward)", "seekcur", vec![SignedSecs('-', d)], b, move || c::Seek(SeekMode::Backward(d)).command());
    }
    // ---- filters, tags ----------------------------------------------------------------------------
    let plans = vec![
        Plan::TagEq(0, "foo".into()),
        Plan::New(3, 2, "mep mep".into()),
        Plan::Negate(Box::new(Plan::Exists(1))),
        Plan::And(Box::new(Plan::TagEq(0, "a b".into())), Box::new(Plan::And(Box::new(Plan::Absent(2)), Box::new(Plan::Bang(Box::new(Plan::New(5, 3, "^x.*$".into()))))))),
    ];
    for (k, p) in plans.iter().enumerate() {
        let (f, t) = p.build(&tags);
        let b = k > 0;
        let fa = f.clone();
        case!(o, "Find::new", "find", vec![Filter(t.clone())], b, move || c::Find::new(fa.clone()).command());
        let fa = f.clone();
        case!(o, "Count::new", "count", vec![Filter(t.clone())], b, move || c::Count::new(fa.clone()).command());
        for (tg, name) in tags.iter().take(33) {
            let (tg, name) = (tg.clone(), name.clone());
            let fa = f.clone();
            let tg1 = tg.clone();
            case!(o, "Find::sort", "find", vec![Filter(t.clone()), s("sort"), TagName(name.clone())], b, move || c::Find::new(fa.clone()).sort(tg1.clone()).command());
            let fa = f.clone();
            let tg1 = tg.clone();
            case!(o, "Count::group_by", "count", vec![Filter(t.clone()), s("group"), TagName(name.clone())], b, move || c::Count::new(fa.clone()).group_by(tg1.clone()).command());
            let fa = f.clone();
            let tg1 = tg.clone();
            case!(o, "CountGrouped::filter", "count", vec![Filter(t.clone()), s("group"), TagName(name.clone())], b, move || c::CountGrouped::new(tg1.clone()).filter(fa.clone()).command());
            let fa = f.clone();
            let tg1 = tg.clone();
            case!(o, "List::filter", "list", vec![TagName(name.clone()), Filter(t.clone())], b, move || c::List::new(tg1.clone()).filter(fa.clone()).command());
            let fa = f.clone();
            let tg1 = tg.clone();
            case!(o, "List::filter.group_by", "list", vec![TagName(name.clone()), Filter(t.clone()), s("group"), TagName("Album".into()), s("group"), TagName(name.clone())], b, move || c::List::new(tg1.clone()).filter(fa.clone()).group_by([Tag::Album, tg1.clone()]).command());
        }
    }
    for (tg, name) in tags.iter() {
        let (tg, name) = (tg.clone(), name.clone());
        let tg1 = tg.clone();
        case!(o, "List::new", "list", vec![TagName(name.clone())], false, move || c::List::new(tg1.clone()).command());
        let tg1 = tg.clone();
        case!(o, "List::group_by", "list", vec![TagName("Title".into()), s("group"), TagName(name.clone())], false, move || c::List::new(Tag::Title).group_by([tg1.clone()]).command());
        let tg1 = tg.clone();
        case!(o, "List::group_by x3", "list", vec![TagName(name.clone()), s("group"), TagName("Artist".into()), s("group"), TagName("Album".into()), s("group"), TagName("Date".into())], false, move || c::List::new(tg1.clone()).group_by([Tag::Artist, Tag::Album, Tag::Date]).command());
        let tg1 = tg.clone();
        case!(o, "List::group_by overwritten", "list", vec![TagName(name.clone()), s("group"), TagName("Date".into())], false, move || c::List::new(tg1.clone()).group_by([Tag::Artist, Tag::Album]).group_by([Tag::Date]).command());
        let tg1 = tg.clone();
        case!(o, "CountGrouped::new", "count", vec![s("group"), TagName(name.clone())], false, move || c::CountGrouped::new(tg1.clone()).command());
        let tg1 = tg.clone();
        let n2 = name.clone();
        case!(o, "TagTypes::disable", "tagtypes", vec![s("disable"), TagName(n2.clone()), TagName("Album".into())], false, move || c::TagTypes::disable(&[tg1.clone(), Tag::Album]).command());
        let tg1 = tg.clone();
        case!(o, "TagTypes::enable", "tagtypes", vec![s("enable"), TagName(name.clone())], false, move || c::TagTypes::enable(&[tg1.clone()]).command());
    }
    let _ = mpdspec::SUBSYSTEMS;
    o
}

impl Property for C15 {
    fn id(&self) -> &'static str {
        "C15"
    }
    fn selftest(&self) -> Result<(), String> {
        tokenizer::selftest()?;
        fref::selftest()
    }
    fn cases(&self, cfg: &Cfg) -> u64 {
        // the grid is deterministic; further seeds only change the random durations
        cfg.tier.pick(16, 64)
    }
    fn run_case(&self, cfg: &Cfg, i: u64, acc: &mut Acc) {
        // shard k of n over the case list; thorough tier: extra seeds for the random part
        let n = cfg.tier.pick(16, 16);
        let round = i / n;
        let shard = i % n;
        let cases = all_cases(mix(&[cfg.seed, round]));
        let mut cap = SyncCapture::new(usize::MAX);
        for (k, case) in cases.iter().enumerate() {
            if k as u64 % n != shard {
                continue;
            }
            acc.inc("evaluations");
            acc.distinct("rows", hash_bytes(case.row.as_bytes()));
            let built = panics::catch(|| (case.build)());
            let cmd = match built {
                Ok(c) => c,
                Err(_) if case.row.starts_with("LF: ") => {
                    acc.inc("unsendable_strings_refused");
                    continue;
                }
                Err(p) => {
                    acc.violation(i, None, format!("{}: command() panicked: {}", case.row, p.0), J::obj().set("row", case.row).set("expected_args", format!("{:?}", case.args)));
                    continue;
                }
            };
            let wire = cap.send(cmd);
            let fail = |acc: &mut Acc, m: String| {
                acc.violation(i, None, format!("{}: {} (wire {:?})", case.row, m, String::from_utf8_lossy(&wire)), J::obj().set("row", case.row).set("wire", J::bytes(&wire)).set("expected_word", case.word).set("expected_args", format!("{:?}", case.args)));
            };
            let (lines, rest) = split_lines(&wire);
            if lines.len() != 1 || !rest.is_empty() {
                fail(acc, "not exactly one line".into());
                continue;
            }
            let (name, args) = match tokenize(lines[0]) {
                Ok(x) => x,
                Err(e) => {
                    fail(acc, format!("tokenizer error: {}", e.name()));
                    continue;
                }
            };
            if name != case.word.as_bytes() {
                fail(acc, format!("command word {:?}, documented {:?}", String::from_utf8_lossy(&name), case.word));
                continue;
            }
            // an optional trailing range that selects everything may be left out (together with the `window` keyword)
            let mut want: &[ArgSpec] = &case.args;
            if args.len() < want.len() {
                if let Some(ArgSpec::OptRange(lo, hi, _)) = want.last() {
                    let everything = matches!(lo, Bound::Unbounded | Bound::Included(0)) && matches!(hi, Bound::Unbounded);
                    if everything {
                        want = &want[..want.len() - 1];
                        if matches!(want.last(), Some(ArgSpec::Str(w)) if w == "window") && args.len() < want.len() {
                            want = &want[..want.len() - 1];
                        }
                    }
                }
            }
            if args.len() != want.len() {
                fail(acc, format!("{} arguments, documented {}", args.len(), case.args.len()));
                continue;
            }
            let mut ok = true;
            for (spec, a) in want.iter().zip(args.iter()) {
                if let Err(e) = check_arg(spec, a) {
                    fail(acc, e);
                    ok = false;
                    break;
                }
            }
            if ok {
                acc.inc("commands_ok");
                if case.boundary {
                    acc.distinct("nontrivial", hash_bytes(&wire) ^ hash_bytes(case.row.as_bytes()));
                }
                if acc.want_sample() && case.boundary && k % 977 == 0 {
                    acc.sample(i, J::obj().set("row", case.row).set("wire", J::bytes(&wire)).set("expected", format!("{} {:?}", case.word, case.args)));
                }
            }
        }
    }
    fn meta(&self, _cfg: &Cfg, acc: &Acc) -> Meta {
        Meta {
            level: "exploration",
            rule: "one expectation row per constructor/builder path of every predefined command (typed by hand from the MPD protocol reference); EXHAUSTIVE over the boundary grid {0,1,2,99,100,101,255,2^32-1,2^32,MAX-1,MAX} for every integer parameter (pairs for two-integer commands), all 9 bound-kind combinations (included/excluded/unbounded)^2 over the grid for every range parameter incl. inverted and empty ranges, all 256 volumes, every enum variant, 13 boundary durations + seeded random ones, 7 strings x 7 strings with blanks/tabs/non-ASCII, 41 tag names; 5 strings with a line feed through every string parameter: the command must be refused (panic) or sent faithfully, never written with the string altered or left out; the line written by Connection::send is tokenised with the MPD tokenizer port and compared semantically (range = same set of positions over usize with saturation tolerated only where +1 overflows; seconds within 0.5 ms; filter via the grammar port); non-trivial = case whose parameters contain a boundary value; distinct by (row, wire bytes)".into(),
            nontrivial_set: "nontrivial",
            assumptions: vec![
                "expectation table (harness/src/props/c15.rs) typed from the MPD protocol reference is the trusted base".into(),
                "strings are taken from the class C06 round-trips (no quotes, backslashes, control characters, empty); byte-level fidelity is C06's".into(),
                "Move::range with an open end panics by documentation and is excluded".into(),
            ],
            exhaustive: Some(true),
            floors: vec![("distinct_rows".into(), 110), ("commands_ok".into(), 5_000)],
            extra: vec![("rows_exercised".into(), J::Int(acc.distinct_len("rows") as i128)), ("exhaustive_scope".into(), J::Str("boundary grid per row; random durations sampled".into()))],
        }
    }
}
