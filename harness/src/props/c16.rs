//! C16 — status, stats, count, list, playlist, sticker… replies decode faithfully.
//! Oracle: per-kind schema typed from the MPD protocol reference (Appendix D of DESIGN.md).

use std::collections::HashMap;
use std::time::Duration;

use mpd_client::commands::{self as c, Command as TypedCommand, ReplayGainMode, SingleMode, SongId, SongPosition};
use mpd_client::responses::PlayState;
use mpd_client::tag::Tag;

use super::typed::{self, close, frame_of, gen_ms, gen_name, gen_u64_edge, kv, ms_spell, ms_str, TIMESTAMPS};
use crate::refmodel::mpdspec;
use crate::util::acc::Acc;
use crate::util::itercheck;
use crate::util::json::J;
use crate::util::panics;
use crate::util::rng::{hash_bytes, mix, Rng};
use crate::util::Cfg;
use crate::{Meta, Property};

pub struct C16;

#[derive(Clone, Debug, Default)]
pub struct AStatus {
    volume: Option<u8>,
    state: usize, // 0 play 1 pause 2 stop
    repeat: bool,
    random: bool,
    consume: bool,
    single: Option<usize>, // 0,1,2=oneshot
    playlist: Option<u32>,
    playlistlength: Option<usize>,
    song: Option<(usize, u64)>,
    nextsong: Option<(usize, u64)>,
    elapsed_ms: Option<u64>,
    duration_ms: Option<u64>,
    bitrate: Option<u64>,
    xfade: Option<u64>,
    updating_db: Option<u64>,
    error: Option<String>,
    partition: Option<String>,
}

pub const NOPT: usize = 13;

pub fn gen_status(r: &mut Rng, mask: u32) -> AStatus {
    let on = |k: usize| mask & (1 << k) != 0;
    let pos = |r: &mut Rng| *r.pick(&[0usize, 1, 17, u32::MAX as usize, usize::MAX]);
    AStatus {
        volume: on(0).then(|| *r.pick(&[0u8, 1, 50, 100, 255])),
        state: r.below(3),
        repeat: r.chance(1, 2),
        random: r.chance(1, 2),
        consume: r.chance(1, 2),
        single: on(1).then(|| r.below(3)),
        playlist: on(2).then(|| *r.pick(&[0u32, 1, 1 << 31, u32::MAX, 4711])),
        playlistlength: on(3).then(|| pos(r)),
        song: on(4).then(|| (pos(r), gen_u64_edge(r))),
        nextsong: on(5).then(|| (pos(r), gen_u64_edge(r))),
        elapsed_ms: on(6).then(|| gen_ms(r)),
        duration_ms: on(7).then(|| gen_ms(r)),
        bitrate: on(8).then(|| gen_u64_edge(r)),
        xfade: on(9).then(|| *r.pick(&[0u64, 1, 10, 3600, u32::MAX as u64])),
        updating_db: on(10).then(|| gen_u64_edge(r)),
        error: on(11).then(|| gen_name(r)),
        partition: on(12).then(|| gen_name(r)),
    }
}

pub fn status_fields(a: &AStatus, r: &mut Rng, permute: bool, extras: bool) -> Vec<(String, String)> {
    // MPD's order (command/PlayerCommands.cxx handle_status)
    let mut f = Vec::new();
    if let Some(v) = a.volume {
        f.push(kv("volume", v));
    }
    f.push(kv("repeat", a.repeat as u8));
    f.push(kv("random", a.random as u8));
    if let Some(s) = a.single {
        f.push(kv("single", ["0", "1", "oneshot"][s]));
    }
    f.push(kv("consume", a.consume as u8));
    if let Some(p) = &a.partition {
        f.push(kv("partition", p));
    }
    if let Some(v) = a.playlist {
        f.push(kv("playlist", v));
    }
    if let Some(v) = a.playlistlength {
        f.push(kv("playlistlength", v));
    }
    if extras {
        f.push(kv("mixrampdb", "0"));
        f.push(kv("mixrampdelay", "nan"));
    }
    f.push(kv("state", ["play", "pause", "stop"][a.state]));
    if let Some(v) = a.xfade {
        f.push(kv("xfade", v));
    }
    if let Some((p, i)) = a.song {
        f.push(kv("song", p));
        f.push(kv("songid", i));
    }
    if extras && a.elapsed_ms.is_some() && a.duration_ms.is_some() {
        // legacy lowercase `time: elapsed:total` (documented, ignored by the crate)
        f.push(kv("time", format!("{}:{}", a.elapsed_ms.unwrap() / 1000, a.duration_ms.unwrap() / 1000)));
    }
    if let Some(v) = a.elapsed_ms {
        f.push(kv("elapsed", if permute && r.chance(1, 3) { ms_spell(v, r.next_u64()) } else { ms_str(v) }));
    }
    if let Some(v) = a.bitrate {
        f.push(kv("bitrate", v));
    }
    if let Some(v) = a.duration_ms {
        f.push(kv("duration", if permute && r.chance(1, 3) { ms_spell(v, r.next_u64()) } else { ms_str(v) }));
    }
    if extras {
        f.push(kv("audio", "44100:16:2"));
    }
    if let Some(v) = a.updating_db {
        f.push(kv("updating_db", v));
    }
    if let Some(e) = &a.error {
        f.push(kv("error", e));
    }
    if let Some((p, i)) = a.nextsong {
        f.push(kv("nextsong", p));
        f.push(kv("nextsongid", i));
    }
    if permute {
        r.shuffle(&mut f);
    }
    f
}

fn check_status(a: &AStatus, s: &mpd_client::responses::Status) -> Result<(), String> {
    macro_rules! eq {
        ($name:expr, $got:expr, $want:expr) => {
            if $got != $want {
                return Err(format!("{}: decoded {:?}, server sent {:?}", $name, $got, $want));
            }
        };
    }
    eq!("volume", s.volume, a.volume.unwrap_or(0));
    eq!("state", s.state, [PlayState::Playing, PlayState::Paused, PlayState::Stopped][a.state]);
    eq!("repeat", s.repeat, a.repeat);
    eq!("random", s.random, a.random);
    eq!("consume", s.consume, a.consume);
    eq!("single", s.single, a.single.map(|k| [SingleMode::Disabled, SingleMode::Enabled, SingleMode::Oneshot][k]).unwrap_or(SingleMode::Disabled));
    eq!("playlist", s.playlist_version, a.playlist.unwrap_or(0));
    eq!("playlistlength", s.playlist_length, a.playlistlength.unwrap_or(0));
    eq!("song/songid", s.current_song, a.song.map(|(p, i)| (SongPosition(p), SongId(i))));
    eq!("nextsong/nextsongid", s.next_song, a.nextsong.map(|(p, i)| (SongPosition(p), SongId(i))));
    match (s.elapsed, a.elapsed_ms) {
        (None, None) => {}
        (Some(d), Some(ms)) if close(d, ms) => {}
        (g, w) => return Err(format!("elapsed: decoded {:?}, server sent {:?} ms", g, w)),
    }
    match (s.duration, a.duration_ms) {
        (None, None) => {}
        (Some(d), Some(ms)) if close(d, ms) => {}
        (g, w) => return Err(format!("duration: decoded {:?}, server sent {:?} ms", g, w)),
    }
    eq!("bitrate", s.bitrate, a.bitrate);
    eq!("xfade", s.crossfade, Duration::from_secs(a.xfade.unwrap_or(0)));
    eq!("updating_db", s.update_job, a.updating_db);
    eq!("error", s.error, a.error.clone());
    eq!("partition", s.partition, a.partition.clone());
    Ok(())
}

struct Cx<'a> {
    acc: &'a mut Acc,
    case: u64,
}

impl Cx<'_> {
    /// run a decode closure over a frame; `check` compares the typed value with the abstract one
    fn decode<T>(&mut self, kind: &str, fields: &[(String, String)], f: impl FnOnce(mpd_protocol::response::Frame) -> Result<T, mpd_client::responses::TypedResponseError>, check: impl FnOnce(&T) -> Result<(), String>) {
        self.acc.inc("evaluations");
        self.acc.inc(&format!("replies_{}", kind));
        self.acc.count("fields_sent", fields.len() as u64);
        let frame = match frame_of(fields, None) {
            Ok(f) => f,
            Err(e) => {
                self.acc.violation(self.case, None, format!("{}: well-formed reply not parsed by the protocol layer: {}", kind, e), fields_json(fields));
                return;
            }
        };
        match panics::catch(|| f(frame)) {
            Err(p) => self.acc.violation(self.case, None, format!("{}: conversion panicked: {}", kind, p.0), fields_json(fields)),
            Ok(Err(e)) => self.acc.violation(self.case, None, format!("{}: well-formed reply rejected: {}", kind, e), fields_json(fields)),
            Ok(Ok(v)) => match panics::catch(|| check(&v)) {
                Ok(Ok(())) => self.acc.inc("replies_ok"),
                Ok(Err(m)) => self.acc.violation(self.case, None, format!("{}: {}", kind, m), fields_json(fields)),
                Err(p) => self.acc.violation(self.case, None, format!("{}: reading the decoded value panicked: {}", kind, p.0), fields_json(fields)),
            },
        }
    }

    /// a reply with one value outside its field's domain must give an error
    fn must_err<T>(&mut self, kind: &str, fields: &[(String, String)], what: &str, f: impl FnOnce(mpd_protocol::response::Frame) -> Result<T, mpd_client::responses::TypedResponseError>) {
        self.acc.inc("evaluations");
        self.acc.inc("domain_violation_cases");
        let Ok(frame) = frame_of(fields, None) else {
            return;
        };
        match panics::catch(|| f(frame)) {
            Err(p) => self.acc.violation(self.case, None, format!("{}: conversion panicked on {}: {}", kind, what, p.0), fields_json(fields)),
            Ok(Ok(_)) => self.acc.violation(self.case, None, format!("{}: {} is outside the field's domain but a value was returned instead of an error", kind, what), fields_json(fields)),
            Ok(Err(e)) => {
                let _ = format!("{} {:?}", e, e);
                self.acc.inc("domain_violation_rejected");
            }
        }
    }
}

fn fields_json(f: &[(String, String)]) -> J {
    J::obj().set("reply", J::Arr(f.iter().map(|(k, v)| J::Str(format!("{}: {}", k, v))).collect()))
}

fn replace(fields: &[(String, String)], key: &str, val: &str) -> Vec<(String, String)> {
    let mut f = fields.to_vec();
    let mut found = false;
    for (k, v) in f.iter_mut() {
        if k == key {
            *v = val.to_string();
            found = true;
            break;
        }
    }
    if !found {
        f.push(kv(key, val));
    }
    f
}

impl C16 {
    fn status_case(&self, cx: &mut Cx<'_>, r: &mut Rng, mask: u32, permute: bool, extras: bool) {
        let a = gen_status(r, mask);
        let f = status_fields(&a, r, permute, extras);
        if mask != (1 << NOPT) - 1 {
            cx.acc.distinct("nontrivial", mix(&[16, mask as u64, hash_bytes(format!("{:?}", f).as_bytes())]));
        }
        cx.decode("status", &f, |fr| c::Status.response(fr), |s| check_status(&a, s));
    }

    fn status_domain(&self, cx: &mut Cx<'_>, r: &mut Rng) {
        let a = gen_status(r, (1 << NOPT) - 1);
        let f = status_fields(&a, r, false, false);
        let bad: &[(&str, &[&str])] = &[
            ("volume", &["256", "-1", "abc", "1.5", ""]),
            ("state", &["playing", "Play", "2", "", "stopped"]),
            ("repeat", &["2", "true", "", "-1", "on", "01", "+1", "00", "+0", "001", " 1", "1 ", "1.0", "256", "257"]),
            ("random", &["2", "yes", "", "01", "+1", "00", "+0", "10"]),
            ("consume", &["2", "x", "", "01", "+1", "00", "+0", "0x1"]),
            ("single", &["2", "Oneshot", "", "true"]),
            ("playlist", &["4294967296", "-1", "x", "1.0"]),
            ("playlistlength", &["-1", "18446744073709551616", "x"]),
            ("song", &["-1", "x", "18446744073709551616"]),
            ("songid", &["-1", "x", "18446744073709551616"]),
            ("nextsong", &["-1", "x"]),
            ("nextsongid", &["-1", "x"]),
            ("elapsed", &["-1", "nan", "inf", "x", "1e400", "-0.001", "18446744073709551616"]),
            ("duration", &["-1", "NaN", "abc", "-inf", "18446744073709551616", "1e20"]),
            ("bitrate", &["-1", "1.5", "x", "18446744073709551616"]),
            ("xfade", &["-1", "x", "nan", "18446744073709551616"]),
            ("updating_db", &["-1", "x", "18446744073709551616", "1.5"]),
        ];
        for (k, vals) in bad {
            for v in *vals {
                let ff = replace(&f, k, v);
                cx.must_err("status", &ff, &format!("{}: {:?}", k, v), |fr| c::Status.response(fr));
            }
        }
        // the capitalised `Time: elapsed:total` pair the crate accepts in place of a missing `duration`: anything that is
        // not a pair of two numbers is outside its domain; the pair itself may be used or ignored, but not misread
        let mut nod: Vec<(String, String)> = f.iter().filter(|(k, _)| k != "duration").cloned().collect();
        nod.push(kv("Time", "31:240"));
        cx.decode("status", &nod, |fr| c::Status.response(fr), |s| match s.duration {
            None => Ok(()),
            Some(d) if d == Duration::from_secs(240) => Ok(()),
            Some(d) => Err(format!("`Time: 31:240` without `duration` decoded as duration {:?}", d)),
        });
        for v in ["240", "240.5", "1:2:3", "a:b:7", "31:", ":", "", "31:abc", "31:-5", "31-240"] {
            let ff = replace(&nod, "Time", v);
            cx.must_err("status", &ff, &format!("Time: {:?} (no duration field)", v), |fr| c::Status.response(fr));
        }
        // song without songid
        let mut ff = f.clone();
        ff.retain(|(k, _)| k != "songid");
        cx.must_err("status", &ff, "song without songid", |fr| c::Status.response(fr));
    }

    fn stats_case(&self, cx: &mut Cx<'_>, r: &mut Rng) {
        let (ar, al, so, db) = (gen_u64_edge(r), gen_u64_edge(r), gen_u64_edge(r), gen_u64_edge(r));
        let (up, pt, dp) = (gen_ms(r) / 1000, gen_ms(r) / 1000, gen_ms(r) / 1000);
        let mut f = vec![kv("uptime", up), kv("playtime", pt), kv("artists", ar), kv("albums", al), kv("songs", so), kv("db_playtime", dp), kv("db_update", db)];
        if r.chance(1, 2) {
            r.shuffle(&mut f);
        }
        cx.acc.distinct("nontrivial", hash_bytes(format!("{:?}", f).as_bytes()));
        cx.decode("stats", &f, |fr| c::Stats.response(fr), |s| {
            if s.artists != ar || s.albums != al || s.songs != so || s.db_last_update != db || s.uptime != Duration::from_secs(up) || s.playtime != Duration::from_secs(pt) || s.db_playtime != Duration::from_secs(dp) {
                return Err(format!("decoded {:?}", s));
            }
            Ok(())
        });
        for (k, v) in [("artists", "-1"), ("albums", "x"), ("songs", "18446744073709551616"), ("uptime", "-5"), ("playtime", "nan"), ("db_playtime", "18446744073709551616"), ("db_update", "1.5"), ("uptime", "")] {
            let ff = replace(&f, k, v);
            cx.must_err("stats", &ff, &format!("{}: {:?}", k, v), |fr| c::Stats.response(fr));
        }
    }

    fn count_case(&self, cx: &mut Cx<'_>, r: &mut Rng) {
        let songs = gen_u64_edge(r);
        let pt = gen_ms(r) / 1000;
        let mut f = vec![kv("songs", songs), kv("playtime", pt)];
        if r.chance(1, 2) {
            f.reverse();
        }
        let filter = mpd_client::filter::Filter::tag(Tag::Artist, "x");
        cx.decode("count", &f, |fr| c::Count::new(filter.clone()).response(fr), |cn| if cn.songs == songs && cn.playtime == Duration::from_secs(pt) { Ok(()) } else { Err(format!("decoded {:?}", cn)) });
        for (k, v) in [("songs", "-1"), ("songs", "x"), ("playtime", "-1"), ("playtime", "NaN"), ("playtime", "18446744073709551616"), ("songs", "18446744073709551616")] {
            cx.must_err("count", &replace(&f, k, v), &format!("{}: {:?}", k, v), |fr| c::Count::new(filter.clone()).response(fr));
        }
        // grouped
        let tags = typed::tag_names();
        let g = r.pick(&tags).clone();
        let gt = Tag::try_from(g.as_str()).unwrap();
        let n = r.below(7);
        let mut groups: Vec<(String, u64, u64)> = Vec::new();
        for k in 0..n {
            let name = match r.below(5) {
                0 => String::new(),
                1 => "songs".to_string(),
                2 if k > 0 => groups[k - 1].0.clone(), // repeated key
                3 => g.clone(),                          // value equal to the tag name
                _ => gen_name(r),
            };
            groups.push((name, gen_u64_edge(r), gen_ms(r) / 1000));
        }
        let mut f = Vec::new();
        for (name, s, p) in &groups {
            f.push(kv(&g, name));
            if r.chance(1, 2) {
                f.push(kv("songs", s));
                f.push(kv("playtime", p));
            } else {
                f.push(kv("playtime", p));
                f.push(kv("songs", s));
            }
        }
        if n >= 2 {
            cx.acc.distinct("nontrivial", hash_bytes(format!("{:?}", f).as_bytes()));
        }
        let gt2 = gt.clone();
        cx.decode(
            "count_grouped",
            &f,
            |fr| if n % 2 == 0 { c::CountGrouped::new(gt2.clone()).response(fr) } else { c::Count::new(filter.clone()).group_by(gt2.clone()).response(fr) },
            |v| {
                let want: Vec<(String, u64, Duration)> = groups.iter().map(|(a, b, c)| (a.clone(), *b, Duration::from_secs(*c))).collect();
                let got: Vec<(String, u64, Duration)> = v.iter().map(|(a, c)| (a.clone(), c.songs, c.playtime)).collect();
                if got == want {
                    Ok(())
                } else {
                    Err(format!("decoded {:?}, server sent {:?}", got, want))
                }
            },
        );
        if n >= 1 {
            let mut ff = f.clone();
            ff[1].1 = "x".to_string();
            cx.must_err("count_grouped", &ff, "non-numeric songs/playtime in a group", |fr| c::CountGrouped::new(gt.clone()).response(fr));
        }
    }

    fn list_case(&self, cx: &mut Cx<'_>, r: &mut Rng) {
        let tags = typed::tag_names();
        let t = r.pick(&tags).clone();
        // (A hand-built `Tag::Other` spelling a KNOWN name in another letter case is outside the variant's documented
        // contract - "the raw tag string when it doesn't match any other variants" - and is not used: with it even the
        // unchanged `grouped_values()` finds nothing, because MPD answers with its own spelling of the name.)
        let tt = Tag::try_from(t.as_str()).unwrap();
        // plain
        let seed2 = r.next_u64();
        let n = r.below(8);
        let vals: Vec<String> = (0..n).map(|k| if k == 0 && r.chance(1, 3) { String::new() } else { gen_name(r) }).collect();
        let f: Vec<(String, String)> = vals.iter().map(|v| kv(&t, v)).collect();
        cx.decode("list", &f, |fr| c::List::new(tt.clone()).response(fr), |l| {
            let got: Vec<String> = l.values().map(|s| s.to_string()).collect();
            let got2: Vec<String> = l.into_iter().map(|s| s.to_string()).collect();
            let got3: Vec<String> = l.clone().into_iter().collect();
            let raw: Vec<(String, String)> = l.clone().into_raw_values().into_iter().map(|(t, v)| (typed::canonical_tag(&tag_name(&t)), v)).collect();
            let want_raw: Vec<(String, String)> = vals.iter().map(|v| (typed::canonical_tag(&t), v.clone())).collect();
            if got != vals || got2 != vals || got3 != vals || raw != want_raw || l.values().len() != vals.len() {
                return Err(format!("decoded values {:?} / raw {:?}, server sent {:?}", got, raw, vals));
            }
            let rev: Vec<String> = l.values().rev().map(|s| s.to_string()).collect();
            let mut w = vals.clone();
            w.reverse();
            if rev != w {
                return Err("reverse iteration differs".into());
            }
            // every provided iterator method of the three list iterators against the values the server sent
            let mut r2 = Rng::keyed(&[seed2, 0x1716]);
            let to_s = |s: &str| s.to_string();
            itercheck::forward("List::values()", &mut r2, &|| l.values(), &to_s, &vals)?;
            itercheck::double_ended("List::values()", &mut r2, &|| l.values(), &to_s, &vals)?;
            itercheck::exact_size("List::values()", &|| l.values(), &to_s, &vals)?;
            itercheck::forward("(&List).into_iter()", &mut r2, &|| l.into_iter(), &to_s, &vals)?;
            itercheck::double_ended("(&List).into_iter()", &mut r2, &|| l.into_iter(), &to_s, &vals)?;
            let id = |s: String| s;
            itercheck::forward("List::into_iter()", &mut r2, &|| l.clone().into_iter(), &id, &vals)?;
            itercheck::double_ended("List::into_iter()", &mut r2, &|| l.clone().into_iter(), &id, &vals)?;
            itercheck::exact_size("List::into_iter()", &|| l.clone().into_iter(), &id, &vals)?;
            Ok(())
        });
        cx.acc.inc("list_iterators_checked_against_every_provided_method");
        // grouped with 1-3 grouping tags
        let ng = r.range(1, 3);
        let mut gts: Vec<String> = Vec::new();
        while gts.len() < ng {
            let g = r.pick(&tags).clone();
            if g != t && !gts.contains(&g) {
                gts.push(g);
            }
        }
        let rows = r.below(9);
        let mut cur: Vec<String> = vec![String::new(); ng];
        let mut f: Vec<(String, String)> = Vec::new();
        let mut want: Vec<(String, Vec<String>)> = Vec::new();
        for k in 0..rows {
            // change some group values (outermost = last grouping tag is printed first, as MPD nests)
            let mut changed = vec![k == 0; ng];
            for gi in 0..ng {
                if r.chance(1, 3) {
                    changed[gi] = true;
                }
            }
            for gi in (0..ng).rev() {
                if changed[gi] {
                    cur[gi] = match r.below(5) {
                        0 => String::new(),
                        1 => t.clone(),          // group value equal to a tag name
                        2 => cur[gi].clone(),    // re-announced, unchanged
                        _ => gen_name(r),
                    };
                    f.push(kv(&gts[gi], &cur[gi]));
                }
            }
            let v = gen_name(r);
            f.push(kv(&t, &v));
            want.push((v, cur.clone()));
        }
        if rows >= 2 {
            cx.acc.distinct("nontrivial", hash_bytes(format!("{:?}", f).as_bytes()));
        }
        let g: Vec<Tag> = gts.iter().map(|g| Tag::try_from(g.as_str()).unwrap()).collect();
        macro_rules! grouped {
            ($arr:expr, $n:expr) => {{
                let arr = $arr;
                cx.decode(concat!("list_grouped_", stringify!($n)), &f, |fr| c::List::new(tt.clone()).group_by(arr.clone()).response(fr), |l| {
                    let got: Vec<(String, Vec<String>)> = l.grouped_values().map(|(v, gs)| (v.to_string(), gs.iter().map(|s| s.to_string()).collect())).collect();
                    if got != want {
                        return Err(format!("decoded {:?}, server sent {:?}", got, want));
                    }
                    if l.grouped_by() != &arr {
                        return Err("grouped_by() differs from the request".into());
                    }
                    let mut r2 = Rng::keyed(&[seed2, 0x1717]);
                    itercheck::forward("List::grouped_values()", &mut r2, &|| l.grouped_values(), &|(v, gs): (&str, [&str; $n])| (v.to_string(), gs.iter().map(|s| s.to_string()).collect::<Vec<String>>()), &want)?;
                    Ok(())
                });
            }};
        }
        match ng {
            1 => grouped!([g[0].clone()], 1),
            2 => grouped!([g[0].clone(), g[1].clone()], 2),
            _ => grouped!([g[0].clone(), g[1].clone(), g[2].clone()], 3),
        }
    }

    fn misc_case(&self, cx: &mut Cx<'_>, r: &mut Rng) {
        // listplaylists
        let n = r.below(6);
        let pls: Vec<(String, usize)> = (0..n).map(|_| (gen_name(r), r.below(TIMESTAMPS.len()))).collect();
        let mut f = Vec::new();
        for (name, ts) in &pls {
            f.push(kv("playlist", name));
            f.push(kv("Last-Modified", TIMESTAMPS[*ts].0));
        }
        cx.decode("listplaylists", &f, |fr| c::GetPlaylists.response(fr), |v| {
            if v.len() != pls.len() {
                return Err(format!("{} playlists decoded, {} sent", v.len(), pls.len()));
            }
            for (p, (name, ts)) in v.iter().zip(pls.iter()) {
                if &p.name != name || p.last_modified.raw() != TIMESTAMPS[*ts].0 {
                    return Err(format!("decoded {:?}, sent {:?} {}", p, name, TIMESTAMPS[*ts].0));
                }
                #[cfg(feature = "chrono")]
                if p.last_modified.chrono_datetime().timestamp() != TIMESTAMPS[*ts].1 {
                    return Err(format!("timestamp {} decoded as instant {}", TIMESTAMPS[*ts].0, p.last_modified.chrono_datetime().timestamp()));
                }
            }
            Ok(())
        });
        #[cfg(feature = "chrono")]
        if n >= 1 {
            for bad in typed::BAD_TIMESTAMPS {
                cx.must_err("listplaylists", &replace(&f, "Last-Modified", bad), &format!("Last-Modified: {:?}", bad), |fr| c::GetPlaylists.response(fr));
            }
        }
        // sticker get: value = everything after the FIRST '='
        let (name, value) = (*r.pick(&["rating", "a", "x y", "ünï"]), *r.pick(&["5", "", "a=b", "=", "==", " spaced ", "日本", "v=w=x"]));
        let f = vec![kv("sticker", format!("{}={}", name, value))];
        cx.acc.distinct("nontrivial", hash_bytes(format!("{:?}", f).as_bytes()));
        cx.decode("sticker_get", &f, |fr| c::StickerGet::new("u", name).response(fr), |s| {
            let as_string: String = s.clone().into();
            if s.value != value || as_string != value {
                Err(format!("decoded {:?}, server sent {:?}", s.value, value))
            } else {
                Ok(())
            }
        });
        cx.must_err("sticker_get", &[kv("sticker", "novalue")], "sticker without '='", |fr| c::StickerGet::new("u", "n").response(fr));
        // sticker list
        let n = r.below(6);
        let mut want: HashMap<String, String> = HashMap::new();
        let mut f = Vec::new();
        for k in 0..n {
            let name = format!("{}{}", *r.pick(&["n", "rating", "x y", "é"]), k);
            let value = r.pick(&["5", "", "a=b", "=", "v=w=x", " "]).to_string();
            f.push(kv("sticker", format!("{}={}", name, value)));
            want.insert(name, value);
        }
        cx.decode("sticker_list", &f, |fr| c::StickerList::new("u").response(fr), |s| {
            let m: HashMap<String, String> = s.clone().into();
            if s.value != want || m != want {
                Err(format!("decoded {:?}, server sent {:?}", s.value, want))
            } else {
                Ok(())
            }
        });
        // sticker find
        let n = r.below(6);
        let mut want: HashMap<String, String> = HashMap::new();
        let mut f = Vec::new();
        for k in 0..n {
            let file = format!("{}/{}.mp3", gen_name(r), k);
            let value = r.pick(&["5", "", "a=b", "=", "v=w=x"]).to_string();
            f.push(kv("file", &file));
            f.push(kv("sticker", format!("rating={}", value)));
            want.insert(file, value);
        }
        cx.decode("sticker_find", &f, |fr| c::StickerFind::new("", "rating").response(fr), |s| if s.value == want { Ok(()) } else { Err(format!("decoded {:?}, server sent {:?}", s.value, want)) });
        // channels / readmessages
        let n = r.below(6);
        let chans: Vec<String> = (0..n).map(|_| gen_name(r)).collect();
        let f: Vec<(String, String)> = chans.iter().map(|c| kv("channel", c)).collect();
        cx.decode("channels", &f, |fr| c::ListChannels.response(fr), |v| if *v == chans { Ok(()) } else { Err(format!("decoded {:?}", v)) });
        let msgs: Vec<(String, String)> = (0..n).map(|_| (gen_name(r), gen_name(r))).collect();
        let mut f = Vec::new();
        for (c, m) in &msgs {
            f.push(kv("channel", c));
            f.push(kv("message", m));
        }
        cx.decode("readmessages", &f, |fr| c::ReadChannelMessages.response(fr), |v| if *v == msgs { Ok(()) } else { Err(format!("decoded {:?}", v)) });
        // tagtypes
        let names = typed::tag_names();
        let n = r.below(8);
        let tt: Vec<String> = (0..n).map(|_| r.pick(&names).clone()).collect();
        let f: Vec<(String, String)> = tt.iter().map(|t| kv("tagtype", t)).collect();
        cx.decode("tagtypes", &f, |fr| c::GetEnabledTagTypes.response(fr), |v| {
            let got: Vec<String> = v.iter().map(tag_name).collect();
            if got == tt {
                Ok(())
            } else {
                Err(format!("decoded {:?}, server sent {:?}", got, tt))
            }
        });
        for bad in ["a b", "", "Artist1", "x.y"] {
            cx.must_err("tagtypes", &[kv("tagtype", bad)], &format!("tagtype: {:?}", bad), |fr| c::GetEnabledTagTypes.response(fr));
        }
        // update / rescan / addid / replay gain
        let job = gen_u64_edge(r);
        cx.decode("update", &[kv("updating_db", job)], |fr| c::Update::new().uri("x").response(fr), |v| if *v == job { Ok(()) } else { Err(format!("decoded {}", v)) });
        cx.decode("rescan", &[kv("updating_db", job)], |fr| c::Rescan::new().response(fr), |v| if *v == job { Ok(()) } else { Err(format!("decoded {}", v)) });
        cx.decode("addid", &[kv("Id", job)], |fr| c::Add::uri("x").response(fr), |v| if *v == SongId(job) { Ok(()) } else { Err(format!("decoded {:?}", v)) });
        for bad in ["-1", "x", "18446744073709551616", "", "1.0"] {
            cx.must_err("update", &[kv("updating_db", bad)], &format!("updating_db: {:?}", bad), |fr| c::Update::new().response(fr));
            cx.must_err("addid", &[kv("Id", bad)], &format!("Id: {:?}", bad), |fr| c::Add::uri("x").response(fr));
        }
        for (w, m) in [("off", ReplayGainMode::Off), ("track", ReplayGainMode::Track), ("album", ReplayGainMode::Album), ("auto", ReplayGainMode::Auto)] {
            cx.decode("replay_gain_status", &[kv("replay_gain_mode", w)], |fr| c::ReplayGainStatus.response(fr), |v| if v.mode == m { Ok(()) } else { Err(format!("decoded {:?}", v)) });
        }
        for bad in ["Off", "OFF", "", "tracks", "0"] {
            cx.must_err("replay_gain_status", &[kv("replay_gain_mode", bad)], &format!("replay_gain_mode: {:?}", bad), |fr| c::ReplayGainStatus.response(fr));
        }
        let _ = mpdspec::SUBSYSTEMS;
    }
}

pub fn tag_name(t: &Tag) -> String {
    use mpd_protocol::command::Argument;
    let mut b = bytes::BytesMut::new();
    t.render(&mut b);
    String::from_utf8_lossy(&b).to_string()
}

impl Property for C16 {
    fn id(&self) -> &'static str {
        "C16"
    }
    fn cases(&self, cfg: &Cfg) -> u64 {
        // all 2^13 optional-field subsets of status in blocks of 64, then random blocks
        (1u64 << NOPT) / 64 + cfg.tier.pick(1_500, 20_000)
    }
    fn run_case(&self, cfg: &Cfg, i: u64, acc: &mut Acc) {
        let mut r = Rng::keyed(&[cfg.seed, 16, i]);
        if cfg!(feature = "chrono") {
            acc.inc("evaluations_chrono_build");
        }
        let mut cx = Cx { acc, case: i };
        let nsub = (1u64 << NOPT) / 64;
        if i < nsub {
            for k in 0..64 {
                let mask = (i * 64 + k) as u32;
                self.status_case(&mut cx, &mut r, mask, false, mask % 3 == 0);
                cx.acc.inc("status_subsets_enumerated");
            }
            return;
        }
        // random: permuted status, extras, other kinds
        for _ in 0..4 {
            let mask = (r.next_u64() as u32) & ((1 << NOPT) - 1);
            let extras = r.chance(1, 2);
            self.status_case(&mut cx, &mut r, mask, true, extras);
        }
        self.status_domain(&mut cx, &mut r);
        self.stats_case(&mut cx, &mut r);
        self.count_case(&mut cx, &mut r);
        self.list_case(&mut cx, &mut r);
        self.misc_case(&mut cx, &mut r);
        if cx.acc.want_sample() {
            let a = gen_status(&mut r, 0b1010101010101);
            let f = status_fields(&a, &mut r, true, true);
            cx.acc.sample(i, fields_json(&f).set("kind", "status (permuted, with ignored extra fields)").set("abstract", format!("{:?}", a)));
        }
    }
    fn post(&self, cfg: &Cfg, acc: &mut Acc) {
        typed::chrono_stage(cfg, acc, self.hard_limit(cfg));
    }
    fn meta(&self, _cfg: &Cfg, _acc: &Acc) -> Meta {
        Meta {
            level: "exploration",
            rule: "abstract replies are generated per kind from a schema typed from the protocol reference, encoded to `key: value` lines, parsed by the real protocol layer and converted by the real typed command; EXHAUSTIVE over all 2^13 optional-field subsets of status (volume, single, playlist, playlistlength, song+songid, nextsong+nextsongid, elapsed, duration, bitrate, xfade, updating_db, error, partition) in MPD's field order; random part: permuted status with MPD's extra fields (time, mixrampdb, mixrampdelay, audio), stats, count plain/grouped (repeated and changing group keys, group value equal to a tag name, songs/playtime in either order), list plain/grouped with 1-3 grouping tags, listplaylists, sticker get/list/find with '=' in values, channels, readmessages, tagtypes, update, rescan, addid, replay_gain_status; boundary numbers per type; timestamps with Z, numeric offsets and fractional seconds; one-field-at-a-time domain violations must give an error (chrono build: 16 near-miss timestamps such as a 2-digit year, ` UTC`, `+0130`, stray blanks, missing seconds/zone, basic format, epoch number); run with the default and the chrono build; non-trivial = reply with >=1 optional field omitted or >=2 groups/rows; distinct by reply fields".into(),
            nontrivial_set: "nontrivial",
            assumptions: vec![
                "reply schemas (harness/src/props/c16.rs, DESIGN.md appendix D) typed from the MPD protocol reference are the trusted base".into(),
                "durations are sent with millisecond precision as MPD prints them (`S.mmm`; in the random part a third in another decimal spelling of the same number: trailing zeros trimmed, two or six decimals, bare integer) and compared within 1 microsecond".into(),
                "signed/zero-padded spellings such as +1 or 05 are not used as domain violations (the statement is silent on them)".into(),
            ],
            exhaustive: Some(true),
            floors: vec![("status_subsets_enumerated".into(), 1 << NOPT), ("domain_violation_cases".into(), 1000), ("replies_ok".into(), 5000), ("evaluations_chrono_build".into(), 1)],
            extra: vec![("exhaustive_scope".into(), J::Str("optional-field subsets of status; everything else sampled".into()))],
        }
    }
}
