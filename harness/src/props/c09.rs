//! C09 — arbitrary peer bytes never panic or hang the protocol layer.
//! Oracles: panic/abort monitor (child processes), read budget, differential check against the
//! whole-buffer reference decoder, containment ("no fabricated data").

use crate::refmodel::gen;
use crate::refmodel::wire::{encode_session, reference_decode, reference_greeting, DResponse, Item, RefEnd, RefGreeting};
use crate::sim::wirerun::{run, Flavour, RunSpec, Seg, StreamEnd, BUDGET_MARKER, GREETING};
use crate::util::acc::Acc;
use crate::util::json::J;
use crate::util::rng::{hash_bytes, mix, Rng};
use crate::util::Cfg;
use crate::{Meta, Property};

pub struct C09;

fn gen_input(r: &mut Rng, i: u64) -> (&'static str, Vec<u8>) {
    match i % 8 {
        0 => {
            let n = match r.below(10) {
                0 => r.range(4000, 20480),
                1 => 0,
                _ => r.below(300),
            };
            ("random", r.bytes(n))
        }
        1 | 2 => ("dictionary", gen::dictionary_stream(r)),
        3 | 4 | 5 => {
            let s = gen::gen_session(r, 4);
            ("mutated", gen::mutate(r, &encode_session(&s).bytes))
        }
        6 => {
            // numeric edges for binary: and ACK
            let e1 = *r.pick(gen::NUM_EDGES);
            let e2 = *r.pick(gen::NUM_EDGES);
            let mut v = Vec::new();
            if r.chance(1, 3) {
                v.extend_from_slice(b"a: b\n");
            }
            match r.below(4) {
                0 => v.extend_from_slice(format!("binary: {}\n", e1).as_bytes()),
                1 => v.extend_from_slice(format!("ACK [{}@{}] {{play}} msg\n", e1, e2).as_bytes()),
                2 => {
                    v.extend_from_slice(format!("binary: {}\n", e1).as_bytes());
                    let n = r.below(12);
                    v.extend(r.bytes(n));
                    v.extend_from_slice(b"\nOK\n");
                }
                _ => v.extend_from_slice(format!("ACK [{}@{}] {{}} \nOK\n", e1, e2).as_bytes()),
            }
            if r.chance(1, 2) {
                v.extend_from_slice(b"OK\n");
            }
            ("numeric-edge", v)
        }
        _ => {
            // invalid UTF-8 / NUL in key, value, message
            let bad: &[&[u8]] = &[b"\xff", b"\xc3", b"\x00", b"\xed\xa0\x80", b"\xf8\x88\x80\x80\x80", b"\xc0\xaf"];
            // ... or a perfectly valid non-ASCII character, which is fine in a value or message but not in a field
            // name or ACK command name (MPD's names are ASCII): every 2-byte character is equally likely, so
            // the ones whose bytes look like Latin-1 letters (ê = C3 AA, µ = C2 B5, ...) are met, plus a few others
            let valid: String = match r.below(4) {
                0 => char::from_u32(0x80 + r.below(0x780) as u32).unwrap_or('ê').to_string(),
                1 => r.pick(&["ê", "õ", "ú", "ª", "µ", "º", "é", "\u{aaa}", "с", "ｐ", "\u{205f}", "\u{a0}", "ÿ", "Ā"]).to_string(),
                _ => String::new(),
            };
            let b: &[u8] = if valid.is_empty() { bad[r.below(bad.len())] } else { valid.as_bytes() };
            let mut v = Vec::new();
            match r.below(5) {
                0 => {
                    v.extend_from_slice(b"key: val");
                    v.extend_from_slice(b);
                    v.extend_from_slice(b"ue\nOK\n");
                }
                1 => {
                    v.extend_from_slice(b"ke");
                    v.extend_from_slice(b);
                    v.extend_from_slice(b"y: value\nOK\n");
                }
                2 => {
                    v.extend_from_slice(b"ACK [5@0] {play} mess");
                    v.extend_from_slice(b);
                    v.extend_from_slice(b"age\n");
                }
                3 => {
                    v.extend_from_slice(b"ACK [5@0] {pl");
                    v.extend_from_slice(b);
                    v.extend_from_slice(b"ay} message\n");
                }
                _ => {
                    v.extend_from_slice(b"a: b\nlist_OK\n");
                    v.extend_from_slice(b);
                    v.extend_from_slice(b"\nOK\n");
                }
            }
            ("bad-encoding", v)
        }
    }
}

const GREETING_VARIANTS: &[&[u8]] = &[
    b"OK MPD 0.23.5\n",
    b"OK MPD \n",
    b"OK MPD",
    b"OK MPD \xff\n",
    b"OK MPD 0.23.5",
    b"ok mpd 0.23.5\n",
    b"OK MPD\n",
    b"OK\n",
    b"\n",
    b"",
    b"OK MPD 0.23.5\r\n",
    b"OK MPD \x00\n",
    b"ACK [5@0] {} nope\n",
    b"OK MPD 1\nOK\n",
    b" OK MPD 1\n",
    b"OK  MPD 1\n",
];

/// every field / binary of a returned response must literally occur in the input
fn contained(body: &[u8], r: &DResponse) -> Result<(), String> {
    for f in &r.frames {
        for (k, v) in &f.fields {
            let mut needle = Vec::with_capacity(k.len() + v.len() + 3);
            needle.extend_from_slice(k.as_bytes());
            needle.extend_from_slice(b": ");
            needle.extend_from_slice(v.as_bytes());
            needle.push(b'\n');
            if !body.windows(needle.len()).any(|w| w == &needle[..]) {
                return Err(format!("field {:?}: {:?} does not occur in the input", k, v));
            }
        }
        if let Some(b) = &f.binary {
            let mut needle = b.clone();
            needle.push(b'\n');
            if !body.windows(needle.len()).any(|w| w == &needle[..]) {
                return Err(format!("binary payload of {} bytes does not occur in the input", b.len()));
            }
        }
    }
    Ok(())
}

impl C09 {
    fn check_stream(&self, cfg: &Cfg, i: u64, acc: &mut Acc, label: &str, stream: &[u8], connect_fuzz: bool, r: &mut Rng) {
        // reference
        let (greeting_ref, body_off) = if connect_fuzz { reference_greeting(stream) } else { (RefGreeting::Ok("0.23.5".into()), 0) };
        let body: &[u8] = if connect_fuzz {
            if matches!(greeting_ref, RefGreeting::Ok(_)) {
                &stream[body_off..]
            } else {
                b""
            }
        } else {
            stream
        };
        let reference = reference_decode(body);
        if reference.complete_lines >= 1 || connect_fuzz {
            acc.distinct("nontrivial", hash_bytes(stream) ^ connect_fuzz as u64);
        }
        acc.inc(&format!("ref_end_{:?}", reference.end).to_lowercase());

        let len = stream.len();
        let mut segs = vec![Seg::Whole, Seg::Bytewise, Seg::random(r, len, 16)];
        if connect_fuzz {
            // a read boundary is forced after a valid greeting line (scope decision of C02)
            if matches!(greeting_ref, RefGreeting::Ok(_)) {
                segs[0] = Seg::Cuts(vec![body_off]);
                if let Seg::Cuts(c) = &mut segs[2] {
                    c.push(body_off);
                    c.sort_unstable();
                    c.dedup();
                    c.retain(|&x| x > 0 && x < len);
                } else {
                    segs[2] = Seg::Cuts(vec![body_off]);
                }
                for s in segs.iter_mut() {
                    if let Seg::Cuts(c) = s {
                        c.retain(|&x| x > 0 && x < len);
                        if c.is_empty() {
                            *s = Seg::Whole;
                        }
                    }
                }
            }
        }
        for (k, seg) in segs.iter().enumerate() {
            if *seg == Seg::Bytewise && len > 30_000 {
                continue;
            }
            for flavour in [Flavour::Sync, Flavour::Async] {
                let spec = RunSpec {
                    greeting: if connect_fuzz { b"" } else { GREETING },
                    body: stream,
                    seg,
                    end: StreamEnd::Eof,
                    flavour,
                    pending_p: if k == 2 { 40 } else { 0 },
                    pending_seed: mix(&[cfg.seed, i, k as u64]),
                    max_responses: 100_000,
                    keep_alive: false,
                };
                // an application that logs an error and simply receives again: two more calls after the terminal item
                crate::sim::wirerun::AFTER_TERMINAL.with(|v| v.set(2));
                let out = run(&spec);
                acc.inc("evaluations");
                acc.count("receive_calls_after_terminal_item", out.after_terminal.len() as u64);
                acc.max("reads_per_call", out.stats.max_reads_in_call as u64);
                let ctx = |what: String| -> (String, J) {
                    (
                        format!("{} [{} input, {} bytes, {} connection, {}{}]", what, label, len, flavour.name(), seg.describe(), if connect_fuzz { ", connect" } else { "" }),
                        J::obj()
                            .set("input_hex", J::hex(&stream[..len.min(65536)]))
                            .set("input_text", J::bytes(&stream[..len.min(2048)]))
                            .set("connect_fuzz", connect_fuzz)
                            .set("segmentation", seg.describe())
                            .set("flavour", flavour.name())
                            .set("observed", J::Arr(out.items.iter().map(|x| x.to_json()).collect())),
                    )
                };
                // 1. panics
                let mut panicked = false;
                for (k, it) in out.after_terminal.iter().enumerate() {
                    if let Item::Panic(m) = it {
                        panicked = true;
                        if m.contains(BUDGET_MARKER) {
                            let (s, d) = ctx(format!("receive call #{} after the terminal item keeps reading after end of stream (read budget exceeded)", k + 1));
                            acc.violation(i, None, s, d);
                        } else {
                            let (s, d) = ctx(format!("panic in receive call #{} after the connection had returned {}: {}", k + 1, out.items.last().map(|x| x.kind()).unwrap_or_default(), m));
                            acc.violation(i, None, s, d);
                        }
                        break;
                    }
                }
                for it in &out.items {
                    let inner = match it {
                        Item::ConnectErr(b) => b.as_ref(),
                        x => x,
                    };
                    if let Item::Panic(m) = inner {
                        panicked = true;
                        if m.contains(BUDGET_MARKER) {
                            let (s, d) = ctx("keeps reading after end of stream (read budget exceeded)".into());
                            acc.violation(i, None, s, d);
                        } else {
                            let (s, d) = ctx(format!("panic: {}", m));
                            acc.violation(i, None, s, d);
                        }
                    }
                }
                if panicked {
                    continue;
                }
                // 2. read budget
                if out.stats.budget_exceeded {
                    let (s, d) = ctx("another read was issued after a read had returned 0 within the same call".into());
                    acc.violation(i, None, s, d);
                }
                if out.stats.max_reads_in_call > len + 2 {
                    let (s, d) = ctx(format!("{} reads in one call for a {} byte stream", out.stats.max_reads_in_call, len));
                    acc.violation(i, None, s, d);
                }
                // 3. greeting
                let mut items: &[Item] = &out.items;
                if connect_fuzz {
                    let first = items.first();
                    let ok = match (&greeting_ref, first) {
                        (RefGreeting::Ok(v), _) => out.version.as_deref() == Some(v.as_str()),
                        (RefGreeting::Invalid, Some(Item::ConnectErr(e))) => **e == Item::ErrInvalid,
                        (RefGreeting::Eof, Some(Item::ConnectErr(e))) => **e == Item::ErrEof,
                        (RefGreeting::EofOrInvalid, Some(Item::ConnectErr(e))) => **e == Item::ErrEof || **e == Item::ErrInvalid,
                        _ => false,
                    };
                    acc.inc(&format!("greeting_{}", match &greeting_ref {
                        RefGreeting::Ok(_) => "ok",
                        RefGreeting::Invalid => "invalid",
                        RefGreeting::Eof => "eof",
                        RefGreeting::EofOrInvalid => "eof_or_invalid",
                    }));
                    if !ok {
                        let (s, d) = ctx(format!("connect outcome contradicts the greeting reference {:?}: version={:?} first={:?}", greeting_ref, out.version, first.map(|x| x.kind())));
                        acc.violation(i, None, s, d);
                        continue;
                    }
                    if !matches!(greeting_ref, RefGreeting::Ok(_)) {
                        continue;
                    }
                    items = &out.items;
                }
                // 4. containment
                for it in items {
                    if let Item::Resp(resp) = it {
                        if let Err(e) = contained(body, resp) {
                            let (s, d) = ctx(format!("fabricated data: {}", e));
                            acc.violation(i, None, s, d);
                        }
                    }
                }
                // 5. differential against the reference decoder
                let nresp = items.iter().filter(|x| matches!(x, Item::Resp(_))).count();
                let terminal = items.last();
                acc.inc(&format!("outcome_{}", terminal.map(|t| t.kind()).unwrap_or("none")));
                if reference.end == RefEnd::Abstain {
                    acc.inc("abstained");
                    // up to the abstention point the responses must agree
                    let common = reference.responses.len().min(nresp);
                    for k in 0..common {
                        if items[k] != Item::Resp(reference.responses[k].clone()) {
                            let (s, d) = ctx(format!("response {} differs from the reference decoding", k));
                            acc.violation(i, None, s, d);
                            break;
                        }
                    }
                    continue;
                }
                let mut mismatch = None;
                if nresp != reference.responses.len() {
                    mismatch = Some(format!("{} responses returned, reference decodes {}", nresp, reference.responses.len()));
                } else {
                    for k in 0..nresp {
                        if items[k] != Item::Resp(reference.responses[k].clone()) {
                            mismatch = Some(format!("response {} differs from the reference decoding: expected {}", k, reference.responses[k].to_json().render_compact()));
                            break;
                        }
                    }
                }
                if mismatch.is_none() {
                    let ok = match (&reference.end, terminal) {
                        (RefEnd::Clean, Some(Item::CleanEnd)) => true,
                        (RefEnd::Eof, Some(Item::ErrEof)) => true,
                        (RefEnd::Invalid, Some(Item::ErrInvalid)) => true,
                        (RefEnd::EofOrInvalid, Some(Item::ErrEof)) | (RefEnd::EofOrInvalid, Some(Item::ErrInvalid)) => true,
                        _ => false,
                    };
                    if !ok {
                        mismatch = Some(format!("terminal outcome {:?} but the reference says {:?}", terminal.map(|t| t.kind()), reference.end));
                    }
                }
                if let Some(m) = mismatch {
                    let (s, d) = ctx(m);
                    acc.violation(i, None, s, d);
                }
            }
        }
        if acc.want_sample() && reference.complete_lines >= 1 && i % 5 == 3 {
            acc.sample(
                i,
                J::obj()
                    .set("kind", label)
                    .set("input", J::bytes(&stream[..len.min(160)]))
                    .set("len", len)
                    .set("reference_responses", reference.responses.len())
                    .set("reference_end", format!("{:?}", reference.end)),
            );
        }
    }
}

impl Property for C09 {
    fn id(&self) -> &'static str {
        "C09"
    }
    fn sharded(&self) -> bool {
        true
    }
    fn cases(&self, cfg: &Cfg) -> u64 {
        cfg.tier.pick(60_000, 2_000_000)
    }
    fn run_case(&self, cfg: &Cfg, i: u64, acc: &mut Acc) {
        let mut r = Rng::keyed(&[cfg.seed, 9, i]);
        if i < GREETING_VARIANTS.len() as u64 {
            let g = GREETING_VARIANTS[i as usize];
            acc.inc("inputs_greeting-variant");
            self.check_stream(cfg, i, acc, "greeting-variant", g, true, &mut r);
            return;
        }
        let (label, mut stream) = gen_input(&mut r, i);
        acc.inc(&format!("inputs_{}", label));
        let connect_fuzz = i % 5 == 0;
        if connect_fuzz {
            // half of them with a valid greeting in front, a quarter with a mutated one
            match r.below(4) {
                0 | 1 => {
                    let mut s = b"OK MPD 0.23.5\n".to_vec();
                    s.extend_from_slice(&stream);
                    stream = s;
                }
                2 => {
                    let mut s = gen::mutate(&mut r, b"OK MPD 0.23.5\n");
                    s.extend_from_slice(&stream);
                    stream = s;
                }
                _ => {}
            }
        }
        self.check_stream(cfg, i, acc, label, &stream, connect_fuzz, &mut r);
    }
    fn meta(&self, _cfg: &Cfg, _acc: &Acc) -> Meta {
        Meta {
            level: "exploration",
            rule: "inputs: random bytes (0-20 KiB), protocol-dictionary token soups, well-formed streams with 1-8 mutations, numeric edge cases for binary:/ACK numbers (0..2^64, 40 digits, signs, blanks), invalid UTF-8/NUL and valid non-ASCII characters (every 2-byte character equally likely) in key/value/message/command, greeting variants; every 5th input goes through connect as well; after the terminal item (error or clean end) receive() is called twice more (an application that logs the error and receives again): those calls must return without panic and without reading past the end; each under whole, byte-at-a-time and random segmentation on both connection flavours inside child processes (abort containment); oracles: no panic/abort, no read after a 0-byte read within a call, reads <= bytes+2, every returned field/payload occurs literally in the input, and responses + terminal outcome equal the whole-buffer reference decoder's (so the first complete malformed line yields InvalidMessage); non-trivial = input with >=1 complete line (or a connect input); distinct by input hash".into(),
            nontrivial_set: "nontrivial",
            assumptions: vec![
                "reference decoder (harness, plain byte loops, written from the protocol document) is the trusted base".into(),
                "abstention: `binary: <digits>` whose number does not fit the platform word is accepted either as InvalidMessage or as an ordinary field named binary; counted under `abstained`".into(),
                "a stream ending inside a line (no LF) may be reported as UnexpectedEof or InvalidMessage".into(),
                "connect inputs: a read boundary is placed right after a valid greeting line".into(),
            ],
            exhaustive: None,
            floors: vec![
                ("outcome_err_invalid".into(), 100),
                ("outcome_err_eof".into(), 100),
                ("outcome_clean_end".into(), 50),
                ("inputs_numeric-edge".into(), 50),
                ("greeting_invalid".into(), 10),
            ],
            extra: vec![],
        }
    }
}
