//! C10 — end of stream is clean only on a response boundary (every cut offset enumerated).

use crate::refmodel::gen;
use crate::refmodel::wire::{encode_session, AResponse, Item};
use crate::sim::wirerun::{run, Flavour, RunSpec, Seg, StreamEnd, GREETING};
use crate::util::acc::Acc;
use crate::util::json::J;
use crate::util::rng::{hash_bytes, mix, Rng};
use crate::util::Cfg;
use crate::{Meta, Property};

pub struct C10;

const GREETINGS: &[&[u8]] = &[
    b"OK MPD 0.23.5\n",
    b"OK MPD 0\n",
    b"OK MPD 0.21.11-beta rc1\n",
    b"OK MPD \xc3\xa9\xe2\x82\xac\n",
    b"OK MPD  \n",
    b"OK MPD OK MPD\n",
    b"OK MPD 99999999999999999999.0\n",
    b"OK MPD 0.23.5\r\n",
    b"OK MPD x\n",
    b"OK MPD 0.24~git (abcdef)\n",
    b"OK MPD \t\n",
    b"OK MPD 0.20.0.0.0.0.0.0.0.0.0.0.0.0.0.0.0.0.0.0.0.0.0.0.0.0.0.0.0.0.0.0.0.0.0.0.0.0.0.0.0.0.0.0.0.0.0.0.0.0.0.0.0.0.0\n",
];

/// Smaller sessions than C03's so that every cut can be enumerated.
fn gen_small_session(r: &mut Rng) -> Vec<AResponse> {
    let n = r.range(1, 4);
    let mut out = Vec::new();
    for _ in 0..n {
        let mut resp = gen::gen_response(r);
        for f in resp.frames.iter_mut() {
            f.fields.truncate(6);
            for (_, v) in f.fields.iter_mut() {
                if v.len() > 80 {
                    let mut cut = 80;
                    while !v.is_char_boundary(cut) {
                        cut -= 1;
                    }
                    v.truncate(cut);
                }
            }
            if let Some((p, b)) = f.binary.as_mut() {
                b.truncate(120);
                *p = (*p).min(f.fields.len());
            }
        }
        resp.frames.truncate(4);
        if let Some(p) = resp.partial.as_mut() {
            p.fields.truncate(3);
            for (_, v) in p.fields.iter_mut() {
                if v.len() > 40 {
                    let mut cut = 40;
                    while !v.is_char_boundary(cut) {
                        cut -= 1;
                    }
                    v.truncate(cut);
                }
            }
            if let Some((pos, b)) = p.binary.as_mut() {
                b.truncate(60);
                *pos = (*pos).min(p.fields.len());
            }
        }
        if let Some(e) = resp.error.as_mut() {
            if resp.form == crate::refmodel::wire::Form::List {
                e.index = resp.frames.len() as u64;
            }
        }
        out.push(resp);
    }
    out
}

/// Classify a cut position for the evidence histogram.
fn classify(bytes: &[u8], boundaries: &[usize], c: usize) -> &'static str {
    if c == 0 || boundaries.contains(&c) {
        return "on_boundary";
    }
    // find line start
    let ls = bytes[..c].iter().rposition(|&b| b == b'\n').map(|p| p + 1).unwrap_or(0);
    if ls == c {
        return "after_complete_line_inside_response";
    }
    let line = &bytes[ls..c];
    if line.starts_with(b"ACK") {
        "inside_ack_line"
    } else if line.starts_with(b"OK") || line.starts_with(b"list_OK") || b"list_OK".starts_with(line) {
        "inside_ok_or_list_ok"
    } else if line.starts_with(b"binary: ") || b"binary: ".starts_with(line) {
        "inside_binary_header_or_key"
    } else if line.iter().any(|&b| b == b':') {
        "inside_value_or_payload"
    } else {
        "inside_key_or_payload"
    }
}

impl Property for C10 {
    fn id(&self) -> &'static str {
        "C10"
    }
    fn cases(&self, cfg: &Cfg) -> u64 {
        cfg.tier.pick(500, 5_000) + GREETINGS.len() as u64
    }
    fn run_case(&self, cfg: &Cfg, i: u64, acc: &mut Acc) {
        let ng = GREETINGS.len() as u64;
        if i < ng {
            // every prefix of a valid greeting line
            let g = GREETINGS[i as usize];
            for c in 0..=g.len() {
                for flavour in [Flavour::Sync, Flavour::Async] {
                    for seg in [Seg::Whole, Seg::Bytewise] {
                        // the greeting is part of "greeting" here; body empty. To cut the greeting we
                        // pass the prefix as greeting bytes.
                        let spec = RunSpec { greeting: &g[..c], body: b"", seg: &seg, end: StreamEnd::Eof, flavour, pending_p: 0, pending_seed: 0, max_responses: 4, keep_alive: false };
                        // segmentation of the greeting itself: Core only segments the body, so feed the
                        // prefix as body with an empty greeting for the bytewise variant
                        let spec = if seg == Seg::Bytewise { RunSpec { greeting: b"", body: &g[..c], ..spec } } else { spec };
                        let out = run(&spec);
                        acc.inc("evaluations");
                        acc.inc("greeting_cuts");
                        let expected: Vec<Item> = if c == g.len() { vec![Item::CleanEnd] } else { vec![Item::ConnectErr(Box::new(Item::ErrEof))] };
                        if c < g.len() {
                            acc.distinct("nontrivial", mix(&[7, i, c as u64]));
                        }
                        if out.items != expected {
                            acc.violation(
                                i,
                                None,
                                format!(
                                    "greeting {:?} cut at {} ({} connection, {}): expected {} got {}",
                                    String::from_utf8_lossy(g),
                                    c,
                                    flavour.name(),
                                    seg.describe(),
                                    J::Arr(expected.iter().map(|x| x.to_json()).collect()).render_compact(),
                                    J::Arr(out.items.iter().map(|x| x.to_json()).collect()).render_compact()
                                ),
                                J::obj().set("greeting", J::bytes(g)).set("cut", c),
                            );
                        }
                    }
                }
            }
            return;
        }
        let mut r = Rng::keyed(&[cfg.seed, 10, i]);
        // every 40th stream is a big one (a response around a 4096*2^k buffer edge, or a 66-530 KB binary part, followed
        // by further responses): too long to cut everywhere, so the cuts are the response boundaries, their
        // neighbours, the buffer-edge multiples and a random sample
        let big = i % 40 == 7;
        let session = if !big {
            gen_small_session(&mut r)
        } else if r.chance(1, 2) {
            crate::refmodel::gen::gen_huge_session(&mut r)
        } else {
            crate::refmodel::gen::gen_edge_session(&mut r)
        };
        let enc = encode_session(&session);
        let len = enc.bytes.len();
        acc.inc("streams");
        if big {
            acc.inc("big_streams_with_sampled_cuts");
        }
        acc.max("stream_len", len as u64);
        let shash = hash_bytes(&enc.bytes);
        let mut sampled = false;
        let cuts: Vec<usize> = if !big {
            (0..=len).collect()
        } else {
            let mut v: Vec<usize> = vec![0, len];
            for b in &enc.boundaries {
                for d in [-2isize, -1, 0, 1, 2] {
                    let c = *b as isize + d;
                    if c >= 0 && c as usize <= len {
                        v.push(c as usize);
                    }
                }
            }
            for k in 0..8 {
                let e = 4096usize << k;
                for c in [e - 1, e, e + 1] {
                    if c <= len {
                        v.push(c);
                    }
                }
            }
            for _ in 0..16 {
                v.push(r.below(len + 1));
            }
            v.sort_unstable();
            v.dedup();
            v
        };
        let ncuts = cuts.len();
        for c in cuts {
            let prefix = &enc.bytes[..c];
            let mut expected: Vec<Item> = Vec::new();
            for (k, b) in enc.boundaries.iter().enumerate() {
                if *b <= c {
                    expected.push(Item::Resp(enc.expected[k].clone()));
                }
            }
            let on_boundary = c == 0 || enc.boundaries.contains(&c);
            expected.push(if on_boundary { Item::CleanEnd } else { Item::ErrEof });
            let class = classify(&enc.bytes, &enc.boundaries, c);
            acc.inc(&format!("cuts_{}", class));
            if !on_boundary {
                acc.distinct("nontrivial", mix(&[shash, c as u64]));
            }
            let segs = [Seg::Whole, if c > 20_000 { Seg::random(&mut r, c, 3) } else { Seg::Bytewise }, Seg::random(&mut r, c, 6)];
            for (k, seg) in segs.iter().enumerate() {
                for flavour in [Flavour::Sync, Flavour::Async] {
                    let spec = RunSpec {
                        greeting: GREETING,
                        body: prefix,
                        seg,
                        end: StreamEnd::Eof,
                        flavour,
                        pending_p: if k == 2 { 32 } else { 0 },
                        pending_seed: mix(&[cfg.seed, i, c as u64]),
                        max_responses: 16,
                        keep_alive: false,
                    };
                    let out = run(&spec);
                    acc.inc("evaluations");
                    if out.items != expected {
                        acc.violation(
                            i,
                            None,
                            format!(
                                "stream cut at offset {} of {} ({}; {} connection, {}): expected {} got {}",
                                c,
                                len,
                                class,
                                flavour.name(),
                                seg.describe(),
                                J::Arr(expected.iter().map(|x| J::Str(x.kind().into())).collect()).render_compact(),
                                J::Arr(out.items.iter().map(|x| J::Str(x.kind().into())).collect()).render_compact()
                            ),
                            J::obj()
                                .set("stream_hex", J::hex(&enc.bytes[..len.min(65536)]))
                                .set("stream_text", J::bytes(&enc.bytes[..len.min(4096)]))
                                .set("boundaries", enc.boundaries.clone())
                                .set("cut", c)
                                .set("observed", J::Arr(out.items.iter().map(|x| x.to_json()).collect())),
                        );
                    }
                }
            }
            if !sampled && !on_boundary && acc.want_sample() && c > len / 2 {
                sampled = true;
                acc.sample(
                    i,
                    J::obj()
                        .set("stream", J::bytes(&enc.bytes[..len.min(160)]))
                        .set("stream_len", len)
                        .set("response_boundaries", enc.boundaries.clone())
                        .set("example_cut", c)
                        .set("class", class)
                        .set("expected", J::Arr(expected.iter().map(|x| J::Str(x.kind().into())).collect())),
                );
            }
        }
        acc.count("cuts", ncuts as u64);
    }
    fn meta(&self, _cfg: &Cfg, _acc: &Acc) -> Meta {
        Meta {
            level: "fault_enumeration",
            rule: "for every generated well-formed stream (1-4 responses with lists, errors, binary parts, keyword-like values) EVERY cut offset 0..=len is enumerated; the prefix is fed under whole, byte-at-a-time and random segmentation to both connection flavours and must yield exactly the responses ending at or before the cut followed by Ok(None) iff the cut is a response boundary recorded by the reference encoder, else Io(UnexpectedEof); plus every prefix of 12 valid greeting lines; every 40th stream is a big one (response around a 4096*2^k buffer edge or a 66-530 KB binary part followed by further responses) cut at the response boundaries +-2, the buffer-edge multiples +-1 and 16 random offsets; non-trivial = cut strictly inside a response (or inside the greeting); distinct by (stream hash, cut offset)".into(),
            nontrivial_set: "nontrivial",
            assumptions: vec!["response boundaries are those recorded by the harness-side reference encoder".into(), "error kind compared (UnexpectedEof), not the message".into()],
            exhaustive: Some(true),
            floors: vec![
                ("cuts_on_boundary".into(), 50),
                ("cuts_inside_binary_header_or_key".into(), 10),
                ("cuts_inside_value_or_payload".into(), 50),
                ("cuts_inside_ack_line".into(), 10),
                ("cuts_inside_ok_or_list_ok".into(), 10),
                ("cuts_after_complete_line_inside_response".into(), 20),
                ("greeting_cuts".into(), 100),
            ],
            extra: vec![("exhaustive_scope".into(), J::Str("all cut offsets of each generated stream; the set of streams is sampled".into()))],
        }
    }
}
