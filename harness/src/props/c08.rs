//! C08 — when the connection ends, every request resolves and the failure is reported.
//! Fault enumeration: every byte position / write call / event instant of a set of base scripts.

use std::time::Duration;

use super::c01;
use super::sess;
use crate::sim::analysis::{Analysis, UnitKind};
use crate::sim::scenario::{self, ms};
use crate::sim::session::{ConnectKind, Outcome, Req, Scenario, Step};
use crate::sim::world::{ArtStore, CallResult, EvKind, Fault, PasswordVerdict, SegPolicy};
use crate::util::acc::Acc;
use crate::util::json::J;
use crate::util::rng::{mix, Rng};
use crate::util::{Cfg, Tier};
use crate::{Meta, Property};

pub struct C08;

pub const NUM_SCRIPTS: u64 = 15;
const SHARDS: u64 = 8;
const KINDS: u64 = 6; // eof, read error, garbage, write error, server close, handle drop

/// malformed without a line end: no valid line begins like this, so nothing that may still come can repair it
const GARBAGE_NO_LF: &[&[u8]] = &[b"\x01\x02\x03", b"changed= player"];
const GARBAGE: &[&[u8]] = &[b"!!\n", b"\xff\xfe\n", b"OK MPD 0.23.5\n", b"ACK garbage\n", b": no key\n", b"key without separator\n"];

pub fn base_script(idx: u64, variant: u64) -> Scenario {
    let d = sess::d_hook();
    let mut s = Scenario::new(&format!("script-{}", idx), mix(&[0xc08, idx, variant]));
    s.epilogue = false;
    s.post_fault_probe = true;
    match idx {
        0 => {
            s.notifications = vec![(ms(30), vec!["player".into()]), (ms(200), vec!["mixer".into(), "options".into()])];
        }
        1 => {
            s.callers = vec![(ms(20), vec![Step::Do(Req::Raw { shape: 1 })])];
        }
        2 => {
            for k in 0..3 {
                s.callers.push((ms(20 + k), vec![Step::Do(Req::Raw { shape: k }), Step::Do(Req::Raw { shape: 1 })]));
            }
            s.world.reply_delay = vec![ms(5)];
        }
        3 => {
            s.callers = vec![(ms(20), vec![Step::Pipelined(vec![Req::Raw { shape: 0 }, Req::Raw { shape: 1 }, Req::Raw { shape: 2 }])])];
            s.world.reply_delay = vec![ms(2)];
        }
        4 => {
            s.callers = vec![(ms(20), vec![Step::Do(Req::RawList { n: 4, fail_at: None, shape: 0 })])];
        }
        5 => {
            s.callers = vec![(ms(20), vec![Step::Do(Req::RawList { n: 4, fail_at: Some((2, 50)), shape: 1 }), Step::Do(Req::Raw { shape: 0 })])];
        }
        6 => {
            s.notifications = vec![(ms(30), vec!["player".into(), "mixer".into()])];
            s.callers = vec![(ms(31), vec![Step::Do(Req::Raw { shape: 1 })])];
            s.world.c2s_latency = vec![ms(2)];
            s.world.idle_seg = vec![SegPolicy::PerLine];
            s.world.idle_chunk_delay = vec![ms(2)];
        }
        7 => {
            s.callers = vec![(ms(20), vec![Step::Do(Req::Raw { shape: 0 }), Step::Think(d / 2), Step::Do(Req::Raw { shape: 1 }), Step::Think(d * 2), Step::Do(Req::Raw { shape: 0 })])];
        }
        8 => {
            s.world.art = Some(ArtStore { embedded: Some(((0..150u32).map(|x| (x % 251) as u8).collect(), Some("image/png".into()))), cover: None, limit: 64, readpicture_supported: true, embedded_ack: 0, cover_ack: 0, ack_after_partial_output: false, ack_from_offset: None, later_chunks: Vec::new() });
            s.callers = vec![(ms(20), vec![Step::Do(Req::AlbumArt { uri: "a b.mp3".into() })])];
        }
        9 => {
            s.callers = vec![(ms(20), vec![Step::Do(Req::Raw { shape: 3 })])];
            s.world.seg = vec![SegPolicy::Random(4)];
            s.world.chunk_delay = vec![ms(1)];
        }
        10 => {
            s.world.password = Some(("secret word".into(), PasswordVerdict::Accept));
            s.connect = ConnectKind::Password("secret word".into());
            s.callers = vec![(ms(20), vec![Step::Do(Req::Raw { shape: 1 })])];
        }
        11 => {
            s.world.reply_delay = vec![ms(30)];
            s.callers = vec![(ms(20), vec![Step::CancelAfter(ms(10), Req::Raw { shape: 1 }), Step::Do(Req::Raw { shape: 0 })]), (ms(22), vec![Step::Do(Req::Raw { shape: 2 })])];
        }
        12 => {
            // typed requests: conversion happens in the caller after the reply
            s.callers = vec![(ms(20), vec![Step::Do(Req::TypedTuple { arity: 3, rot: 0, base: 10 }), Step::Do(Req::TypedUpdate { token: 5 })])];
        }
        14 => {
            // the application does not poll its events receiver before the end: 150 unread changes when the fault comes
            s.events_lazy = true;
            // (spaced so that each change gets an idle reply of its own: the server reports a SET of changed subsystems;
            // default transport whatever the variant)
            s.notifications = (0..100u64).map(|k| (ms(30 + 3 * k), vec![["player", "mixer", "options"][(k % 3) as usize].to_string()])).collect();
            s.callers = vec![(ms(61), vec![Step::Do(Req::Raw { shape: 1 })])];
            return s;
        }
        _ => {
            s.world.c2s_latency = vec![ms(5)];
            s.world.reply_delay = vec![ms(5)];
            s.callers = vec![(ms(50), vec![Step::Do(Req::Raw { shape: 1 })]), (ms(300), vec![Step::Do(Req::Raw { shape: 5 })])];
            s.notifications = vec![(ms(52), vec!["player".into()]), (ms(320), vec!["output".into()])];
        }
    }
    // transport variants
    match variant % 3 {
        0 => {}
        1 => {
            s.world.seg = vec![SegPolicy::PerLine];
            s.world.chunk_delay = vec![ms(1)];
            s.world.read_cap = 7;
            // and a transport whose shutdown never completes
            s.world.shutdown_stalls = true;
        }
        _ => {
            s.world.seg = vec![SegPolicy::Random(5)];
            s.world.chunk_delay = vec![ms(1), Duration::ZERO];
            s.world.write_cap = 3;
            s.world.pending_p = 24;
        }
    }
    s
}

#[derive(Clone, Debug)]
enum Injected {
    World(Fault),
    DropHandles(Duration),
}

/// Was the fault a clean close (end of stream exactly on a response boundary)?
fn is_clean(inj: &Injected, base: &Analysis<'_>, greeting_len: u64) -> bool {
    match inj {
        Injected::World(Fault::EofAfter(k)) => *k == greeting_len || base.replies.iter().any(|r| r.end == *k),
        Injected::World(Fault::ServerCloseAt(_)) => true,
        Injected::DropHandles(_) => true,
        _ => false,
    }
}

/// The C08 oracle over one fault session.
fn check(acc: &mut Acc, case: u64, sc: &Scenario, inj: &Injected, out: &Outcome, clean: bool, garbage_at: Option<u64>) {
    let a = Analysis::new(out);
    let viol = |acc: &mut Acc, msg: String| {
        acc.violation(case, None, format!("{} [fault: {:?}, {}]", msg, inj, sc.name), sess::detail(sc, out).set("fault", format!("{:?}", inj)));
    };
    for p in &out.panics {
        viol(acc, format!("panic: {}", p));
        return;
    }
    if !matches!(out.connect, Some(Ok(_))) {
        // the fault hit the handshake (password exchange): connect must have returned an error, not hung
        if out.hung.iter().any(|h| h == "connect") {
            viol(acc, "connect never returned".into());
        }
        acc.inc("fault_during_handshake");
        return;
    }
    // 1. nothing hangs
    if !out.hung.is_empty() {
        viol(acc, format!("{} still pending at the far virtual deadline (1 h after every other activity stopped)", out.hung.join(", ")));
        return;
    }
    if !out.fault_fired || (sc.post_fault_probe && sc.drop_handles_at.is_none() && !out.probe_ran) {
        acc.inc("fault_not_reached");
        return;
    }
    acc.inc("fault_sessions_judged");
    let dropped = matches!(inj, Injected::DropHandles(_));
    // 2. replies: whatever resolved Ok must be the right reply; completely delivered replies must resolve Ok
    c01::check(acc, case, sc, out, &a, false);
    // no invented, duplicated or reordered subsystem event on the way down either, and every change of an
    // idle/noidle reply the client completely read before the end has become an event (C04): the library
    // parses a reply in the poll that reads its last byte and publishes its changes before it awaits again, so
    // no fault can come between
    if garbage_at.is_none() {
        if super::c04::check(acc, case, sc, out, &a, true).is_some() {
            return;
        }
    }
    let calls = a.calls();
    let total = a.total_delivered();
    let fault_log = a.log().iter().position(|e| matches!(e.kind, EvKind::Fault(_))).unwrap_or(usize::MAX);
    // a call cancelled before the fault may still be the one the loop was serving: the error may have
    // been handed to its (dropped) responder, so the surfacing clause cannot be judged
    let exit_log = a.log().iter().position(|e| matches!(&e.kind, EvKind::TransportDropped)).unwrap_or(usize::MAX);
    let mut inflight_open_cancelled = calls.iter().any(|c| c.cancelled.map(|x| x.0 < exit_log).unwrap_or(false));
    let mut inflight_call_result: Option<CallResult> = None;
    let mut had_inflight = false;
    // the request of a caller that has given up is completely on the wire and its reply outstanding: the loop is
    // waiting for that reply (not in the middle of a noidle exchange)
    let mut cancelled_request_on_the_wire = false;
    for (ui, u) in a.units.iter().enumerate() {
        if !matches!(u.kind, UnitKind::Single | UnitKind::List) || !u.complete {
            continue;
        }
        // which call does this unit belong to?
        let first = u.lines.iter().find(|l| l.starts_with(b"vreq ") || l.starts_with(b"v_fail "));
        let Some(first) = first else { continue };
        let toks: Vec<usize> = String::from_utf8_lossy(first).split(' ').skip(1).filter_map(|t| t.parse().ok()).collect();
        if toks.len() < 2 {
            continue;
        }
        let Some(cv) = calls.iter().find(|c| c.call.caller == toks[0] && c.call.seq == toks[1]) else { continue };
        let reply = a.unit_reply(ui);
        let corrupted_before = garbage_at.map(|g| reply.as_ref().map(|r| g < r.end).unwrap_or(true)).unwrap_or(false);
        let fully = reply.as_ref().map(|r| r.end <= total).unwrap_or(false) && !corrupted_before;
        if fully {
            acc.inc("completely_delivered_replies_checked");
            match (&cv.end, cv.cancelled) {
                (Some((_, _, r)), _) if r.is_ok() || matches!(r, CallResult::ErrResponse { .. }) => {}
                (_, Some(_)) => {}
                (None, None) if dropped => {}
                (other, _) => {
                    viol(acc, format!("the reply to c{}#{} was completely received but the call resolved with {:?}", cv.call.caller, cv.call.seq, other.as_ref().map(|x| x.2.short())));
                    return;
                }
            }
        } else if u.end_log < fault_log {
            // written before the fault, reply not completely delivered: in flight
            had_inflight = true;
            if cv.cancelled.is_some() {
                cancelled_request_on_the_wire = true;
            }
            if cv.cancelled.is_some() || (cv.end.is_none() && dropped) {
                inflight_open_cancelled = true;
            } else if let Some((_, _, r)) = &cv.end {
                inflight_call_result = Some(r.clone());
            }
        }
    }
    // every call ended (unless aborted by the handle drop)
    for cv in &calls {
        if cv.end.is_none() && cv.cancelled.is_none() && !dropped {
            viol(acc, format!("call c{}#{} neither resolved nor was cancelled", cv.call.caller, cv.call.seq));
            return;
        }
        acc.inc("calls_resolved");
    }
    // 3. closed flag and later requests
    if !dropped {
        if out.closed_flag_at_end != Some(true) {
            viol(acc, format!("is_connection_closed() is {:?} at quiescence after the connection ended", out.closed_flag_at_end));
            return;
        }
        match calls.iter().find(|c| c.call.caller == 99).and_then(|c| c.end.clone()) {
            Some((_, _, CallResult::ErrClosed)) | Some((_, _, CallResult::ErrProtocol(_))) => acc.inc("later_requests_resolved_with_error"),
            other => {
                viol(acc, format!("a request issued after the connection ended resolved with {:?}", other.map(|x| x.2.short())));
                return;
            }
        }
    }
    // 4. event stream
    if sc.keep_events {
        let evs = a.events();
        let closed: Vec<usize> = evs.iter().enumerate().filter(|(_, e)| matches!(e.2, EvKind::EventClosed(_))).map(|(i, _)| i).collect();
        if closed.len() > 1 {
            viol(acc, format!("{} closing events", closed.len()));
            return;
        }
        if let Some(&ci) = closed.first() {
            if evs[ci + 1..].iter().any(|e| !matches!(e.2, EvKind::EventEnd)) {
                viol(acc, "an event was delivered after the closing event".into());
                return;
            }
        }
        if !out.events_ended {
            viol(acc, "the event stream never ended after the connection ended".into());
            return;
        }
        // 5a. the request the loop had started to serve: if the last thing written before the loop ended is a
        // noidle, the loop had taken a request from its queue (it cancels idle only on behalf of one); that
        // caller - the oldest call open at that moment - must be told about a non-clean failure
        if !clean && !inflight_open_cancelled {
            let last_unit = a.units.iter().rev().find(|u| u.end_log < exit_log && u.complete);
            if let Some(u) = last_unit {
                // (not when the failure had already been handed to the caller that was in flight when it happened: the
                // library keeps going after that, and a request arriving later is a LATER request, for which any error
                // will do - after an end of stream on a line boundary the second look at the stream is a clean end)
                let already_surfaced = calls.iter().any(|c| matches!(&c.end, Some((e, _, CallResult::ErrProtocol(_))) if *e < u.start_log));
                if u.kind == UnitKind::Noidle && !already_surfaced {
                    let served = calls
                        .iter()
                        .filter(|c| c.call.caller != 99 && c.start_log < u.start_log && c.end.as_ref().map(|e| e.0 > u.start_log).unwrap_or(true))
                        .min_by_key(|c| c.start_log);
                    if let Some(sv) = served {
                        acc.inc("served_call_checks");
                        if let Some((_, _, CallResult::ErrClosed)) = &sv.end {
                            viol(acc, format!("the client had cancelled idle on behalf of c{}#{} when the connection failed, but that caller was told the connection was closed cleanly (ConnectionClosed) instead of receiving the error", sv.call.caller, sv.call.seq));
                            return;
                        }
                    }
                }
            }
        }
        // 5. the failure is surfaced
        if !clean {
            let proto_err_call = calls.iter().any(|c| matches!(&c.end, Some((_, _, CallResult::ErrProtocol(_)))));
            if !inflight_open_cancelled {
                if had_inflight {
                    match &inflight_call_result {
                        Some(CallResult::ErrProtocol(_)) => acc.inc("failure_surfaced_to_inflight_caller"),
                        Some(other) if other.is_ok() || matches!(other, CallResult::ErrResponse { .. }) => {}
                        other => {
                            if closed.is_empty() {
                                viol(acc, format!("a request was in flight when the connection failed, but its caller got {:?} and no closing event was emitted", other.as_ref().map(|x| x.short())));
                                return;
                            }
                        }
                    }
                } else if !proto_err_call && closed.is_empty() {
                    viol(acc, "the connection failed (not a clean close) but neither a caller received the error nor a closing event was emitted".into());
                    return;
                } else {
                    acc.inc(if closed.is_empty() { "failure_surfaced_to_a_caller" } else { "failure_surfaced_as_closing_event" });
                }
            } else if cancelled_request_on_the_wire
                && calls.iter().filter(|c| c.cancelled.is_some()).count() == 1
                && matches!(inj, Injected::World(Fault::ReadErrAfter(_) | Fault::GarbageAt(..) | Fault::GarbageMuteAt(..) | Fault::WriteErrFrom(_)))
            {
                // The caller whose REPLY failed had given up, so its error went nowhere. But these failures are
                // persistent (every later read / write fails the same way, the malformed line stays at the head of the
                // buffer), so the connection cannot end without failing again with nobody to take the error but the
                // event stream. Only an end of stream can look clean the second time (cut on a line boundary). (Not judged
                // when a SECOND caller gave up as well: the second failure may then happen in the noidle exchange made on
                // its behalf and go to its dead responder - seen once in 199 540 fault sessions of the thorough tier.)
                if !proto_err_call && closed.is_empty() {
                    viol(acc, "the connection failed persistently (not a clean close) while the caller in flight had given up; afterwards neither another caller received an error nor was a closing event emitted".into());
                    return;
                }
                acc.inc("failure_surfaced_after_a_cancelled_caller");
            }
        } else {
            acc.inc("clean_closes");
        }
    }
    // 6. the transport is released
    if !out.transport_dropped {
        viol(acc, "the transport was never dropped after the connection ended / the last handle was dropped".into());
    }
}

fn scripts_for(tier: Tier) -> Vec<(u64, u64)> {
    match tier {
        Tier::Quick => (0..NUM_SCRIPTS).map(|s| (s, s % 3)).chain([(1, 0), (5, 1), (6, 0), (11, 2), (6, 2), (13, 1)]).collect(),
        Tier::Thorough => (0..NUM_SCRIPTS).flat_map(|s| (0..3).map(move |v| (s, v))).collect(),
    }
}

impl Property for C08 {
    fn id(&self) -> &'static str {
        "C08"
    }
    fn cases(&self, cfg: &Cfg) -> u64 {
        scripts_for(cfg.tier).len() as u64 * KINDS * SHARDS + cfg.tier.pick(1_500, 100_000)
    }
    fn run_case(&self, cfg: &Cfg, i: u64, acc: &mut Acc) {
        let scripts = scripts_for(cfg.tier);
        let enumerated = scripts.len() as u64 * KINDS * SHARDS;
        if i >= enumerated {
            // random fault plans on random scenarios
            let mut r = Rng::keyed(&[cfg.seed, 8, i]);
            let mut sc = scenario::random(mix(&[cfg.seed, 0xc08, i]), sess::d_hook());
            sc.epilogue = false;
            sc.post_fault_probe = true;
            let base = {
                let mut b = sc.clone();
                b.post_fault_probe = false;
                sess::run(&b)
            };
            let ba = Analysis::new(&base);
            if base.s2c_len <= base.greeting_len {
                return;
            }
            let k = base.greeting_len + r.below((base.s2c_len - base.greeting_len + 1) as usize) as u64;
            let inj = match r.below(6) {
                0 => Injected::World(Fault::EofAfter(k)),
                1 => Injected::World(Fault::ReadErrAfter(k)),
                2 => {
                    let ls: Vec<u64> = base.line_starts.iter().copied().filter(|&x| x >= base.greeting_len).collect();
                    Injected::World(Fault::GarbageAt(*r.pick(&ls), GARBAGE[r.below(GARBAGE.len())].to_vec()))
                }
                3 => Injected::World(Fault::WriteErrFrom(r.below(base.write_calls + 1))),
                4 => Injected::World(Fault::ServerCloseAt(Duration::from_nanos(base.log[r.below(base.log.len())].t))),
                _ => Injected::DropHandles(Duration::from_nanos(base.log[r.below(base.log.len())].t)),
            };
            self.inject(acc, i, &sc, &inj, &ba, base.greeting_len, "random");
            return;
        }
        let si = (i / (KINDS * SHARDS)) as usize;
        let kind = (i / SHARDS) % KINDS;
        let shard = i % SHARDS;
        let (script, variant) = scripts[si];
        let sc = base_script(script, variant);
        let base = {
            let mut b = sc.clone();
            b.post_fault_probe = false;
            sess::run(&b)
        };
        let ba = Analysis::new(&base);
        if shard == 0 && kind == 0 {
            acc.inc("base_scripts_run");
            // the fault-free base run itself must be fine
            if !base.hung.is_empty() || !base.panics.is_empty() {
                acc.violation(i, None, format!("fault-free base run of {} hangs or panics: {:?} {:?}", sc.name, base.hung, base.panics), sess::detail(&sc, &base));
                return;
            }
        }
        let g = base.greeting_len;
        let mut positions: Vec<Injected> = Vec::new();
        match kind {
            0 => positions.extend((g..=base.s2c_len).map(|k| Injected::World(Fault::EofAfter(k)))),
            1 => positions.extend((g..=base.s2c_len).map(|k| Injected::World(Fault::ReadErrAfter(k)))),
            2 => {
                for &ls in base.line_starts.iter().filter(|&&x| x >= g) {
                    for gb in GARBAGE {
                        positions.push(Injected::World(Fault::GarbageAt(ls, gb.to_vec())));
                    }
                    for gb in GARBAGE_NO_LF {
                        positions.push(Injected::World(Fault::GarbageMuteAt(ls, gb.to_vec())));
                    }
                }
            }
            3 => positions.extend((0..=base.write_calls).map(|j| Injected::World(Fault::WriteErrFrom(j)))),
            4 | _ => {
                let mut ts: Vec<u64> = base.log.iter().map(|e| e.t).collect();
                ts.sort_unstable();
                ts.dedup();
                // at each instant at which anything happened, and 1 µs before / after it
                let mut all = Vec::new();
                for t in ts {
                    all.push(t.saturating_sub(1_000));
                    all.push(t);
                    all.push(t + 1_000);
                }
                all.dedup();
                for t in all {
                    positions.push(if kind == 4 { Injected::World(Fault::ServerCloseAt(Duration::from_nanos(t))) } else { Injected::DropHandles(Duration::from_nanos(t)) });
                }
            }
        }
        let kind_name = ["eof", "read_error", "garbage", "write_error", "server_close", "handle_drop"][kind as usize];
        for (pi, inj) in positions.iter().enumerate() {
            if pi as u64 % SHARDS != shard {
                continue;
            }
            acc.inc(&format!("positions_{}", kind_name));
            self.inject(acc, i, &sc, inj, &ba, g, kind_name);
        }
    }
    fn post(&self, cfg: &Cfg, acc: &mut Acc) {
        if cfg.tier == Tier::Thorough || cfg.has_flag("--with-miri") {
            let j = super::miri::stage(cfg, "C08", acc);
            acc.notes.push(("miri_aux_stage".to_string(), j));
        }
    }
    fn meta(&self, cfg: &Cfg, _acc: &Acc) -> Meta {
        Meta {
            level: "fault_enumeration",
            rule: format!(
                "{} base scripts (idle with notifications, one request, three queued callers, pipelined, command list, failing list, notification racing a request, requests inside/after the re-idle window, chunked album art, big reply, password handshake, cancellation, typed lists, crossing noidle, 100 changes piled up in an events receiver the application does not poll) x transport variants are first run fault-free to measure the server->client stream length L, the number of write calls W and the instants at which anything happened; then EVERY position is enumerated: end of stream after byte k (k = greeting..L), persistent read error after byte k, each of 6 malformed lines spliced at every line start, each of 2 malformed byte strings WITHOUT a line end written at every line start by a server that then falls silent, persistent write error from write call j (j = 0..W), server-side close and drop of all client handles at every event instant (+-1 us); plus random fault plans on random scenarios; oracle per session: nothing pending at a far virtual deadline, replies completely received resolve Ok with the right content, every call ends, is_connection_closed() true at quiescence, a later request resolves with an error, at most one closing event and nothing after it, event stream ends, a non-clean failure reaches the in-flight caller (or any caller / a closing event if none was in flight), transport dropped; non-trivial = fault session in which a request was queued or in flight; distinct by (script, fault kind, loop state at the fault, open calls)",
                scripts_for(cfg.tier).len()
            ),
            nontrivial_set: "nontrivial",
            assumptions: vec![
                "faults are those of the simulated transport (kernel behaviour such as RST timing is not exercised)".into(),
                "hang = still pending 1 virtual hour after every component stopped scheduling work; no timer in the system is that long".into(),
                "if the in-flight caller had been cancelled the failure cannot be surfaced to it; such sessions are exempt from the surfacing clause".into(),
                "a well-formed ACK line spliced into the stream is not 'malformed data' and is not injected".into(),
            ],
            exhaustive: Some(true),
            floors: vec![
                ("positions_eof".into(), 200),
                ("positions_read_error".into(), 200),
                ("positions_garbage".into(), 100),
                ("positions_write_error".into(), 20),
                ("positions_server_close".into(), 50),
                ("positions_handle_drop".into(), 50),
                ("failure_surfaced_to_inflight_caller".into(), 20),
                ("failure_surfaced_as_closing_event".into(), 20),
                ("clean_closes".into(), 20),
                ("later_requests_resolved_with_error".into(), 200),
            ],
            extra: vec![("exhaustive_scope".into(), J::Str("all fault positions of each base script; the set of scripts is fixed; random part sampled".into()))],
        }
    }
}

impl C08 {
    fn inject(&self, acc: &mut Acc, case: u64, base_sc: &Scenario, inj: &Injected, ba: &Analysis<'_>, g: u64, kind_name: &str) {
        let mut sc = base_sc.clone();
        let mut garbage_at = None;
        match inj {
            Injected::World(f) => {
                if let Fault::GarbageAt(k, _) | Fault::GarbageMuteAt(k, _) = f {
                    garbage_at = Some(*k);
                }
                sc.world.fault = f.clone();
            }
            Injected::DropHandles(t) => {
                sc.drop_handles_at = Some(*t);
                sc.post_fault_probe = false;
            }
        }
        let clean = is_clean(inj, ba, g);
        let out = sess::run(&sc);
        acc.inc("evaluations");
        let a = Analysis::new(&out);
        // loop state at the fault and open calls, for the distinct-case count
        let fault_log = a.log().iter().position(|e| matches!(e.kind, EvKind::Fault(_))).unwrap_or(a.log().len());
        let state = a.log()[..fault_log].iter().rev().find_map(|e| if let EvKind::Hook(h) = &e.kind { Some(h.clone()) } else { None }).unwrap_or_default();
        let open = a.calls().iter().filter(|c| c.start_log < fault_log && c.end.as_ref().map(|e| e.0 > fault_log).unwrap_or(true) && c.cancelled.map(|x| x.0 > fault_log).unwrap_or(true)).count();
        if open > 0 {
            acc.distinct("nontrivial", mix(&[crate::util::rng::hash_bytes(base_sc.name.as_bytes()), crate::util::rng::hash_bytes(kind_name.as_bytes()), crate::util::rng::hash_bytes(state.as_bytes()), open as u64, clean as u64]));
        }
        check(acc, case, &sc, inj, &out, clean, garbage_at);
        if acc.want_sample() && open > 0 && out.log.len() < 60 && case % 7 == 3 {
            acc.sample(case, J::obj().set("script", base_sc.name.clone()).set("fault", format!("{:?}", inj)).set("log", J::Arr(out.render_log(60).into_iter().filter(|l| !l.contains("client read")).map(J::Str).collect())));
        }
    }
}
