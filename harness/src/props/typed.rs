//! Shared pieces of the typed engine (C12, C14, C16): frames through the real parser, abstract
//! reply generators, the chrono-build stage.

use std::time::Duration;

use mpd_protocol::response::Frame;

use crate::refmodel::mpdspec;
use crate::refmodel::wire::AFrame;
use crate::sim::wirerun::frames_via_parser;
use crate::util::acc::Acc;
use crate::util::rng::Rng;
use crate::util::{shard, Cfg};

pub fn frame_of(fields: &[(String, String)], binary: Option<Vec<u8>>) -> Result<Frame, String> {
    let af = AFrame { fields: fields.to_vec(), binary: binary.map(|b| (fields.len(), b)) };
    let mut v = frames_via_parser(&[af])?;
    v.pop().ok_or_else(|| "no frame".to_string())
}

pub fn kv(k: &str, v: impl ToString) -> (String, String) {
    (k.to_string(), v.to_string())
}

/// milliseconds -> "S.mmm" as MPD prints durations
pub fn ms_str(ms: u64) -> String {
    format!("{}.{:03}", ms / 1000, ms % 1000)
}

/// The same number of seconds in another decimal spelling (a server need not print exactly three decimals):
/// trailing zeros trimmed (`2.5`, `2`), two decimals, six / ten / eighteen decimals, a leading zero-less fraction is NOT used
/// (not every float parser takes `.5`). `sel` picks the spelling; the value denoted is always exactly `ms` ms.
pub fn ms_spell(ms: u64, sel: u64) -> String {
    let canon = ms_str(ms);
    match sel % 7 {
        5 => format!("{}0000000", canon),
        6 => format!("{}000000000000000", canon),
        0 => {
            let t = canon.trim_end_matches('0');
            t.trim_end_matches('.').to_string()
        }
        1 if ms % 10 == 0 => format!("{}.{:02}", ms / 1000, ms % 1000 / 10),
        2 => format!("{}000", canon),
        3 if ms % 100 == 0 => format!("{}.{}", ms / 1000, ms % 1000 / 100),
        _ => canon,
    }
}

pub fn close(d: Duration, ms: u64) -> bool {
    let want = Duration::from_millis(ms);
    let diff = if d > want { d - want } else { want - d };
    diff <= Duration::from_micros(1)
}

pub const TIMESTAMPS: &[(&str, i64)] = &[
    ("2020-06-12T17:53:00Z", 1591984380),
    ("1970-01-01T00:00:00Z", 0),
    ("2038-01-19T03:14:08Z", 2147483648),
    ("2000-02-29T23:59:59Z", 951868799),
    ("2024-12-31T23:59:59Z", 1735689599),
    ("2021-03-04T05:06:07Z", 1614834367),
    // the same instant as the first entry with a numeric offset / fractional seconds (RFC 3339 allows both)
    ("2020-06-12T19:23:00+01:30", 1591984380),
    ("2020-06-12T12:53:00-05:00", 1591984380),
    ("2020-06-12T17:53:00.500Z", 1591984380),
];

/// Values that are NOT timestamps of the protocol's format (ISO 8601 / RFC 3339 date-time with zone): near misses a
/// lenient parser would take, and which would then denote a wrong or unintended instant.
pub const BAD_TIMESTAMPS: &[&str] = &[
    "2020-13-45T99:99:99Z",
    "yesterday",
    "",
    "2020-06-12 17:53:00",
    "12-12-12T12:12:12Z",
    "2012-12-12T12:12:12 UTC",
    "2012-12-12T12:12:12+0130",
    " 2012-12-12T12:12:12Z",
    "2012-12-12T12:12:12Z ",
    "+2012-12-12T12:12:12Z",
    "2012-12-12T12:12Z",
    "2012-12-12",
    "2012-12-12T12:12:12",
    "2012-02-30T00:00:00Z",
    "20121212T121212Z",
    "1591984380",
];

pub fn gen_u64_edge(r: &mut Rng) -> u64 {
    match r.below(8) {
        0 => 0,
        1 => 1,
        2 => u64::MAX,
        3 => u32::MAX as u64,
        4 => u32::MAX as u64 + 1,
        5 => 1 << 63,
        _ => r.next_u64() % 100_000,
    }
}

pub fn gen_ms(r: &mut Rng) -> u64 {
    match r.below(8) {
        0 => 0,
        1 => 1,
        2 => 999,
        3 => 1000,
        4 => 4_294_967_296,
        5 => 86_400_000 * 365,
        _ => r.next_u64() % 10_000_000,
    }
}

pub fn gen_name(r: &mut Rng) -> String {
    const N: &[&str] = &["foo", "foo bar", "a=b", "=", "x=", "=y", "a==b", "Ünï cödé", "日本語", "with: colon", " lead", "trail ", "OK", "list_OK", "ACK [5@0] {} x", "a/b/c.mp3", "http://example.com/stream?x=1&y=2", "it's \"quoted\"", "back\\slash", "cr\rinside", "trailing cr\r", "\ttab"];
    if r.chance(1, 3) {
        let n = r.range(1, 12);
        (0..n).map(|_| (b'a' + r.below(26) as u8) as char).collect()
    } else {
        r.pick(N).to_string()
    }
}

pub fn tag_names() -> Vec<String> {
    let mut v: Vec<String> = mpdspec::named_tags().iter().map(|(_, n)| n.to_string()).collect();
    v.extend(["Mood", "x-custom", "my_tag", "TitleSort", "X-AlbumUri", "MUSICBRAINZ_RELEASEGROUPARTISTID", "a_tag_name_that_is_rather_longer_than_any_name_mpd_uses_today_but_perfectly_valid"].iter().map(|s| s.to_string()));
    // names tagging tools use that are NOT MPD tag names (a library must not fold them onto MPD's tags)
    for n in PLAUSIBLE_UNKNOWN_TAG_NAMES {
        if !mpdspec::named_tags().iter().any(|(_, k)| k.eq_ignore_ascii_case(n)) {
            v.push(n.to_string());
        }
    }
    v
}

pub const PLAUSIBLE_UNKNOWN_TAG_NAMES: &[&str] = &[
    "Year", "TrackNumber", "DiscNumber", "Description", "Lyrics", "BPM", "Rating", "Compilation", "ISRC", "Copyright", "EncodedBy", "Language", "Subtitle", "Remixer", "Producer", "Lyricist",
    "Engineer", "TotalTracks", "TotalDiscs", "Publisher", "Barcode", "CatalogNumber", "Media", "Script", "ReleaseCountry", "ReleaseStatus", "ReleaseType", "Website", "Key", "Writer", "Arranger",
    "DJMixer", "Mixer", "OriginalYear", "OriginalArtist", "OriginalAlbum", "Track-Number", "Disc-Number", "Album-Artist", "Album_Artist", "Tracknum", "Discnum", "Band", "Orchestra", "Interpret",
    "Songwriter", "Author", "Text", "Notes", "Content", "Group", "Set", "Part", "Section", "Length", "Duration_", "Filename", "Path", "URL", "Range_", "Ident", "Position", "Priority", "Times",
];

/// Canonical protocol name of a tag key as MPD/the crate documents it: known names are matched
/// case-insensitively and spelled canonically, unknown ones are kept verbatim.
pub fn canonical_tag(name: &str) -> String {
    for (_, n) in mpdspec::named_tags() {
        if n.eq_ignore_ascii_case(name) {
            return n.to_string();
        }
    }
    name.to_string()
}

/// Value edge set for hostile replies (C12) and domain violations (C16).
pub const VALUE_EDGES: &[&str] = &[
    "", "0", "-0", "-1", "1", "255", "256", "4294967295", "4294967296", "18446744073709551615", "18446744073709551616", "18446744073709551617", "1.8446744073709552e19", "1.8446744073709551e19",
    "1e19", "1e20", "1e308", "1e309", "inf", "-inf", "infinity", "NaN", "nan", "1e-320", ".5", "5.", "+1", " 1", "1 ", "0x10", "1:2", ":", "1:", ":2", "1-", "-", "1--2", "-1-2", "1-2", "1.5-", "1.5-18446744073709551616",
    "18446744073709551616-", "=", "a=", "=b", "a=b=c", "play", "Play", "pause", "stop", "oneshot", "off", "Off", "track", "auto", "true", "é", "日本", "2020-06-12T17:53:00Z", "2020-06-12T17:53:00+02:00",
    "2020-06-12 17:53:00", "202\u{e9}06-12T17:53:00Z", "2020-06-12T1\u{e9}53:00Z", "2020-06-1\u{e9}T17:53:0Z", "\u{20ac}020-06-12T17:53:0Z", "2020-06-12T17:53:\u{e9}Z", "2020-13-45T99:99:99Z", "9999999999-01-01T00:00:00Z", "-2020-06-12T17:53:00Z", "0000-00-00T00:00:00Z", "123:456", "123:18446744073709551616", "340282366920938463463374607431768211456",
    // decimals with 1-2 and with very many fraction digits, leading zeros, exponents
    "2.5", "0.25", "1.0000000000", "3.00000000000000000025", "7.4294967295", "7.4294967296", "0.30000000000000004", "1.999999999999999999999", "0.0000000000000000000000001", "00000000000000000001.5", "1.5e0", "1.5E3", "1_000",
    // ranges whose end precedes their start, values that repeat the sticker name the converters ask for ("n") without `=`
    "25.500-10.000", "2-1", "1-0.5", "0.001-0", "18446744073709551615-1", "n", "nn", "n\u{e9}", "n=", "n=v", "n =v", "N=v",
    "1.0000000000-2.5", "0.5-2.25", "01", "001", "+0", "00", "1:2:3", "a:b:7", "31:", "31:240", "240",
    "179769313486231570000000000000000000000000000000000000000000000000000000000000000000000000000000000000000000000000000000000000000000000000000000000000000000000000000000000000000000000000000000000000000000000000000000000000000000000000000000000000000000000000000000000000000000000000000000000000000000000000000",
];

/// Long values made of multi-byte characters, offset so that the usual cut-off lengths (32, 48, 64, 128, 255, 256, 512,
/// 1024 bytes) fall INSIDE a character: whatever a converter does with a value it rejects (an error that quotes it, a
/// log line, a size-limited copy) must not slice it there.
pub fn long_edges() -> Vec<String> {
    let mut v = Vec::new();
    for (lead, ch, n) in [("", "\u{e9}", 700usize), ("a", "\u{e9}", 700), ("", "\u{65e5}", 500), ("a", "\u{65e5}", 500), ("ab", "\u{65e5}", 500), ("a", "\u{1f600}", 300), ("ab", "\u{1f600}", 300), ("abc", "\u{1f600}", 300)] {
        v.push(format!("{}{}", lead, ch.repeat(n)));
    }
    v.push(format!("12{}", "\u{e9}".repeat(100)));
    v.push(format!("1.5{}", "\u{20ac}".repeat(100)));
    v.push(format!("2020-06-12T17:53:00{}", "\u{e9}".repeat(90)));
    v.push("x".repeat(5000));
    v
}

/// After the default-build cases have run, run the same cases in children of the chrono build.
pub fn chrono_stage(cfg: &Cfg, acc: &mut Acc, limit: Duration) {
    if cfg!(feature = "chrono") {
        return;
    }
    // target/release/mpdverif -> target-chrono/release/mpdverif
    let exe = std::path::Path::new(&cfg.exe);
    let chrono = exe
        .parent()
        .and_then(|p| p.parent())
        .and_then(|p| p.parent())
        .map(|p| p.join("target-chrono").join("release").join("mpdverif"));
    let Some(chrono) = chrono.filter(|p| p.exists()) else {
        acc.inconclusive("chrono build of the harness not found (run ./check, which builds it)");
        return;
    };
    let sub = shard::run_parent(cfg, cfg.threads as u64, &[], limit, Some(chrono.to_str().unwrap_or("")));
    acc.merge(sub);
}
