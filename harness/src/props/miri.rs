//! Auxiliary sanitizer stage (thorough tier of C02 and C08): a reduced workload executed under
//! Miri (`cargo +nightly miri run`). Miri interprets the real code and would report undefined
//! behaviour reached inside `bytes`/`tokio` through this code base (buffer sharing between the
//! receive buffer and returned frames, split_off/unsplit/resize) and allocations leaked at exit (a
//! leaked run-loop task or transport). The stage never decides alone: the main stage does.

use std::process::{Command, Stdio};
use std::time::{Duration, Instant};

use super::{c02, c08};
use crate::refmodel::gen;
use crate::refmodel::wire::{encode_session, Item};
use crate::sim::session::run_session;
use crate::sim::wirerun::{run, Flavour, RunSpec, Seg, StreamEnd, GREETING};
use crate::sim::world::Fault;
use crate::util::acc::Acc;
use crate::util::json::J;
use crate::util::rng::Rng;
use crate::util::Cfg;

/// Executed INSIDE Miri (`--miri-stage C02|C08`). Prints `MIRI-STAGE-OK …` or `MIRI-STAGE-VIOLATION …`.
pub fn inside(cfg: &Cfg, which: &str) -> i32 {
    let mut r = Rng::keyed(&[cfg.seed, 0x6d697269]);
    match which {
        "C02" => {
            let mut runs = 0;
            let mut kept = 0;
            for i in 0..14u64 {
                let (label, body) = if i % 3 == 0 {
                    ("buffer-edge".to_string(), encode_session(&gen::gen_edge_session(&mut r)).bytes)
                } else {
                    c02::gen_stream(&mut r, i, true)
                };
                let len = body.len();
                let reference = run(&RunSpec { greeting: GREETING, body: &body, seg: &Seg::Whole, end: StreamEnd::Eof, flavour: Flavour::Sync, pending_p: 0, pending_seed: 0, max_responses: 64, keep_alive: true });
                runs += 1;
                let mut segs = vec![Seg::random(&mut r, len, 12)];
                if len <= 400 {
                    segs.push(Seg::Bytewise);
                }
                for edge in [4096usize, 8192, 16384] {
                    if len > edge + 2 {
                        segs.push(Seg::Cuts(vec![edge - 1]));
                        segs.push(Seg::Cuts(vec![edge, edge + 1]));
                    }
                }
                for seg in &segs {
                    for flavour in [Flavour::Sync, Flavour::Async] {
                        let out = run(&RunSpec { greeting: GREETING, body: &body, seg, end: StreamEnd::Eof, flavour, pending_p: 32, pending_seed: i, max_responses: 64, keep_alive: true });
                        runs += 1;
                        kept += out.responses_kept;
                        if out.items != reference.items || !out.hook_violations.is_empty() {
                            println!("MIRI-STAGE-VIOLATION C02 stream {} ({} bytes, {}) {} {:?}", i, len, label, seg.describe(), out.hook_violations);
                            return 1;
                        }
                    }
                }
                let _ = reference.items.iter().filter(|x| matches!(x, Item::Resp(_))).count();
            }
            println!("MIRI-STAGE-OK C02 runs={} responses_kept_alive={}", runs, kept);
            0
        }
        "C08" => {
            let mut sessions = 0;
            for (script, variant, fault) in [
                (1u64, 0u64, Fault::EofAfter(60)),
                (1, 1, Fault::ReadErrAfter(17)),
                (1, 0, Fault::WriteErrFrom(2)),
                (5, 0, Fault::EofAfter(120)),
                (6, 0, Fault::GarbageAt(14, b"!!\n".to_vec())),
                (0, 0, Fault::ServerCloseAt(Duration::from_millis(100))),
                (2, 0, Fault::EofAfter(17)),
                (11, 0, Fault::ReadErrAfter(40)),
                (1, 0, Fault::None),
            ] {
                let mut sc = c08::base_script(script, variant);
                sc.world.fault = fault;
                let out = run_session(&sc);
                sessions += 1;
                if !out.hung.is_empty() || !out.panics.is_empty() {
                    println!("MIRI-STAGE-VIOLATION C08 script {} hung {:?} panics {:?}", script, out.hung, out.panics);
                    return 1;
                }
            }
            // handle drop while idle / mid-request
            for t in [10u64, 21, 500] {
                let mut sc = c08::base_script(2, 0);
                sc.drop_handles_at = Some(Duration::from_millis(t));
                sc.post_fault_probe = false;
                let out = run_session(&sc);
                sessions += 1;
                if !out.hung.is_empty() || !out.panics.is_empty() || !out.transport_dropped {
                    println!("MIRI-STAGE-VIOLATION C08 handle drop at {} ms: hung {:?} panics {:?} transport_dropped {}", t, out.hung, out.panics, out.transport_dropped);
                    return 1;
                }
            }
            println!("MIRI-STAGE-OK C08 sessions={}", sessions);
            0
        }
        _ => 2,
    }
}

/// Parent side: run the stage under Miri; returns the coverage entry for the evidence and records
/// a violation if Miri reported an error.
pub fn stage(cfg: &Cfg, which: &str, acc: &mut Acc) -> J {
    let exe = std::path::Path::new(&cfg.exe);
    let Some(harness_dir) = exe.parent().and_then(|p| p.parent()).and_then(|p| p.parent()) else {
        return J::Str("skipped: cannot locate the harness directory".into());
    };
    let start = Instant::now();
    let mut cmd = Command::new("cargo");
    cmd.current_dir(harness_dir)
        .args(["+nightly", "miri", "run", "--offline", "--target-dir", "target-miri", "--", "--property", which, "--seed", &cfg.seed.to_string(), "--miri-stage", which])
        .env("MIRIFLAGS", "-Zmiri-disable-isolation")
        .env("CARGO_NET_OFFLINE", "true")
        .stdin(Stdio::null())
        .stdout(Stdio::piped())
        .stderr(Stdio::piped());
    let child = match cmd.spawn() {
        Ok(c) => c,
        Err(e) => return J::Str(format!("skipped: cannot start cargo miri: {}", e)),
    };
    // generous wall-clock limit; a timeout is inconclusive for this stage only
    let limit = Duration::from_secs(1500);
    let pid = child.id();
    let done = std::sync::Arc::new(std::sync::atomic::AtomicBool::new(false));
    {
        let done = done.clone();
        std::thread::spawn(move || {
            let t0 = Instant::now();
            while t0.elapsed() < limit {
                if done.load(std::sync::atomic::Ordering::Relaxed) {
                    return;
                }
                std::thread::sleep(Duration::from_millis(200));
            }
            let _ = Command::new("kill").arg("-9").arg(pid.to_string()).status();
        });
    }
    let out = child.wait_with_output();
    done.store(true, std::sync::atomic::Ordering::Relaxed);
    let secs = start.elapsed().as_secs_f64();
    match out {
        Err(e) => J::Str(format!("skipped: {}", e)),
        Ok(o) => {
            let stdout = String::from_utf8_lossy(&o.stdout).to_string();
            let stderr = String::from_utf8_lossy(&o.stderr).to_string();
            let ok_line = stdout.lines().find(|l| l.starts_with("MIRI-STAGE-OK")).map(|s| s.to_string());
            if o.status.success() && ok_line.is_some() {
                acc.inc("miri_stage_passed");
                return J::obj().set("result", ok_line.unwrap()).set("wall_s", (secs * 10.0).round() / 10.0).set("leak_check", "on (Miri default)");
            }
            let ub = stderr.contains("Undefined Behavior") || stderr.contains("memory leaked") || stderr.contains("error: the evaluated program") || stdout.contains("MIRI-STAGE-VIOLATION");
            if ub {
                let tail: String = stderr.lines().filter(|l| !l.trim().is_empty()).rev().take(40).collect::<Vec<_>>().into_iter().rev().collect::<Vec<_>>().join("\n");
                acc.violation(u64::MAX - 1, None, format!("Miri stage for {} reported an error: {}", which, stdout.lines().find(|l| l.contains("VIOLATION")).unwrap_or("undefined behaviour / leak (see detail)")), J::obj().set("stderr_tail", tail).set("stdout", stdout));
                return J::Str("failed: Miri reported an error".into());
            }
            // build failure, missing toolchain, timeout: inconclusive for this stage only
            let why: String = stderr.lines().rev().find(|l| l.contains("error")).unwrap_or("no result line").chars().take(200).collect();
            J::Str(format!("skipped: stage did not complete ({}; exit {:?}, {:.0} s)", why, o.status.code(), secs))
        }
    }
}
