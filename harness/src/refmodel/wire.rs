//! Wire reference: abstract responses, the reference encoder (records response boundaries) and a
//! whole-buffer, non-streaming reference decoder written with plain byte loops.
//!
//! Source: MPD protocol document, "Protocol overview" (responses, binary responses, command
//! lists, failure responses).

use crate::util::json::J;

#[derive(Clone, Debug, PartialEq, Eq)]
pub struct AFrame {
    pub fields: Vec<(String, String)>,
    /// (position among the fields at which the binary part is emitted, payload)
    pub binary: Option<(usize, Vec<u8>)>,
}

#[derive(Clone, Debug, PartialEq, Eq)]
pub struct AError {
    pub code: u64,
    pub index: u64,
    pub command: Option<String>,
    pub message: String,
}

#[derive(Clone, Copy, Debug, PartialEq, Eq)]
pub enum Form {
    Single,
    List,
}

#[derive(Clone, Debug, PartialEq, Eq)]
pub struct AResponse {
    pub frames: Vec<AFrame>,
    pub error: Option<AError>,
    pub form: Form,
    /// Output the failing command printed before its ACK (only meaningful with `error`). It is not
    /// the frame of a command that succeeded, so it is not part of the decoded response.
    pub partial: Option<AFrame>,
}

/// What a decoder is expected to deliver / did deliver for one response.
#[derive(Clone, Debug, PartialEq, Eq)]
pub struct DFrame {
    pub fields: Vec<(String, String)>,
    pub binary: Option<Vec<u8>>,
}

#[derive(Clone, Debug, PartialEq, Eq)]
pub struct DResponse {
    pub frames: Vec<DFrame>,
    pub error: Option<AError>,
}

/// One element of the result sequence of a connection.
#[derive(Clone, Debug, PartialEq, Eq)]
pub enum Item {
    Resp(DResponse),
    /// `Ok(None)`
    CleanEnd,
    /// `Err(Io(UnexpectedEof))`
    ErrEof,
    /// `Err(InvalidMessage)`
    ErrInvalid,
    /// `Err(Io(other kind))`
    ErrIo(String),
    /// the library panicked (message)
    Panic(String),
    /// connect failed in the given way (only as first element)
    ConnectErr(Box<Item>),
}

impl Item {
    pub fn is_terminal(&self) -> bool {
        !matches!(self, Item::Resp(_))
    }
    pub fn kind(&self) -> &'static str {
        match self {
            Item::Resp(_) => "response",
            Item::CleanEnd => "clean_end",
            Item::ErrEof => "err_eof",
            Item::ErrInvalid => "err_invalid",
            Item::ErrIo(_) => "err_io",
            Item::Panic(_) => "panic",
            Item::ConnectErr(_) => "connect_err",
        }
    }
    pub fn to_json(&self) -> J {
        match self {
            Item::Resp(r) => r.to_json(),
            Item::ErrIo(k) => J::Str(format!("err_io({})", k)),
            Item::Panic(m) => J::Str(format!("panic({})", m)),
            Item::ConnectErr(i) => J::obj().set("connect_err", i.to_json()),
            other => J::Str(other.kind().to_string()),
        }
    }
}

impl DFrame {
    pub fn to_json(&self) -> J {
        let mut o = J::obj();
        o.put(
            "fields",
            J::Arr(self.fields.iter().map(|(k, v)| J::Arr(vec![J::Str(k.clone()), J::bytes(v.as_bytes())])).collect()),
        );
        if let Some(b) = &self.binary {
            if b.len() > 64 {
                o.put("binary", J::Str(format!("<{} bytes, fnv {:016x}>", b.len(), crate::util::rng::hash_bytes(b))));
            } else {
                o.put("binary", J::bytes(b));
            }
        }
        o
    }
}

impl AError {
    pub fn to_json(&self) -> J {
        J::obj()
            .set("code", self.code)
            .set("index", self.index)
            .set("command", self.command.clone())
            .set("message", J::bytes(self.message.as_bytes()))
    }
}

impl DResponse {
    pub fn to_json(&self) -> J {
        let mut o = J::obj();
        o.put("frames", J::Arr(self.frames.iter().map(|f| f.to_json()).collect()));
        if let Some(e) = &self.error {
            o.put("error", e.to_json());
        }
        o
    }
}

impl AFrame {
    pub fn empty() -> AFrame {
        AFrame { fields: Vec::new(), binary: None }
    }
    pub fn encode_into(&self, out: &mut Vec<u8>) {
        let bpos = self.binary.as_ref().map(|(p, _)| (*p).min(self.fields.len()));
        for (i, (k, v)) in self.fields.iter().enumerate() {
            if bpos == Some(i) {
                encode_binary(&self.binary.as_ref().unwrap().1, out);
            }
            out.extend_from_slice(k.as_bytes());
            out.extend_from_slice(b": ");
            out.extend_from_slice(v.as_bytes());
            out.push(b'\n');
        }
        if bpos == Some(self.fields.len()) {
            encode_binary(&self.binary.as_ref().unwrap().1, out);
        }
    }
    pub fn decoded(&self) -> DFrame {
        DFrame { fields: self.fields.clone(), binary: self.binary.as_ref().map(|(_, b)| b.clone()) }
    }
}

fn encode_binary(b: &[u8], out: &mut Vec<u8>) {
    out.extend_from_slice(format!("binary: {}\n", b.len()).as_bytes());
    out.extend_from_slice(b);
    out.push(b'\n');
}

impl AError {
    pub fn encode_into(&self, out: &mut Vec<u8>) {
        out.extend_from_slice(
            format!("ACK [{}@{}] {{{}}} {}\n", self.code, self.index, self.command.as_deref().unwrap_or(""), self.message)
                .as_bytes(),
        );
    }
}

impl AResponse {
    pub fn ok_single(frame: AFrame) -> AResponse {
        AResponse { frames: vec![frame], error: None, form: Form::Single, partial: None }
    }

    /// Serialise as an MPD server would.
    pub fn encode_into(&self, out: &mut Vec<u8>) {
        match self.form {
            Form::Single => {
                // a single command either prints its frame and OK, or only ACK
                if let Some(e) = &self.error {
                    if let Some(p) = &self.partial {
                        p.encode_into(out);
                    }
                    e.encode_into(out);
                } else {
                    if let Some(f) = self.frames.first() {
                        f.encode_into(out);
                    }
                    out.extend_from_slice(b"OK\n");
                }
            }
            Form::List => {
                for f in &self.frames {
                    f.encode_into(out);
                    out.extend_from_slice(b"list_OK\n");
                }
                if let Some(e) = &self.error {
                    if let Some(p) = &self.partial {
                        p.encode_into(out);
                    }
                    e.encode_into(out);
                } else {
                    out.extend_from_slice(b"OK\n");
                }
            }
        }
    }

    pub fn encode(&self) -> Vec<u8> {
        let mut v = Vec::new();
        self.encode_into(&mut v);
        v
    }

    /// The decoding the protocol defines for this response (normalised at the documented
    /// non-injective points: a successful response without list separators is one frame; a
    /// successful empty list (`OK` only) is one empty frame; a failed single command has no frame).
    pub fn expected(&self) -> DResponse {
        match self.form {
            Form::Single => {
                if self.error.is_some() {
                    DResponse { frames: vec![], error: self.error.clone() }
                } else {
                    let f = self.frames.first().cloned().unwrap_or_else(AFrame::empty);
                    DResponse { frames: vec![f.decoded()], error: None }
                }
            }
            Form::List => {
                let frames: Vec<DFrame> = self.frames.iter().map(|f| f.decoded()).collect();
                if self.error.is_none() && frames.is_empty() {
                    DResponse { frames: vec![AFrame::empty().decoded()], error: None }
                } else {
                    DResponse { frames, error: self.error.clone() }
                }
            }
        }
    }
}

/// A session: the encoded stream plus the offsets at which each response ends.
#[derive(Clone, Debug)]
pub struct EncodedSession {
    pub bytes: Vec<u8>,
    /// `boundaries[i]` = offset one past the last byte of response i (relative to `bytes`).
    pub boundaries: Vec<usize>,
    pub expected: Vec<DResponse>,
}

pub fn encode_session(rs: &[AResponse]) -> EncodedSession {
    let mut bytes = Vec::new();
    let mut boundaries = Vec::new();
    let mut expected = Vec::new();
    for r in rs {
        r.encode_into(&mut bytes);
        boundaries.push(bytes.len());
        expected.push(r.expected());
    }
    EncodedSession { bytes, boundaries, expected }
}

// ---------------------------------------------------------------------------------------------
// Reference decoder for arbitrary byte streams.

/// Outcome of the reference decoder for a whole stream (after the greeting).
#[derive(Clone, Debug, PartialEq, Eq)]
pub enum RefEnd {
    Clean,
    Eof,
    Invalid,
    /// The stream ends inside a line (no LF) whose prefix could still become valid or is already
    /// invalid depending on how much look-ahead a decoder uses: either `Eof` or `Invalid`.
    EofOrInvalid,
    /// `binary: <n>` with n not representable: grammar silent (see DESIGN C09).
    Abstain,
}

#[derive(Clone, Debug)]
pub struct RefDecoded {
    pub responses: Vec<DResponse>,
    pub end: RefEnd,
    /// number of complete lines seen
    pub complete_lines: usize,
}

fn is_key_byte(b: u8) -> bool {
    b.is_ascii_alphabetic() || b == b'_' || b == b'-'
}

fn parse_u64(d: &[u8]) -> Option<u64> {
    if d.is_empty() || !d.iter().all(|b| b.is_ascii_digit()) {
        return None;
    }
    let mut v: u64 = 0;
    for &b in d {
        v = v.checked_mul(10)?.checked_add((b - b'0') as u64)?;
    }
    Some(v)
}

/// `ACK [code@index] {command} message`
fn parse_ack(line: &[u8]) -> Option<AError> {
    let rest = line.strip_prefix(b"ACK [")?;
    let at = rest.iter().position(|&b| b == b'@')?;
    let code = parse_u64(&rest[..at])?;
    let rest = &rest[at + 1..];
    let close = rest.iter().position(|&b| b == b']')?;
    let index = parse_u64(&rest[..close])?;
    let rest = rest[close + 1..].strip_prefix(b" {")?;
    let end = rest.iter().position(|&b| b == b'}')?;
    let cmd = &rest[..end];
    if !cmd.iter().all(|&b| b.is_ascii_alphabetic() || b == b'_') {
        return None;
    }
    let rest = rest[end + 1..].strip_prefix(b" ")?;
    let message = std::str::from_utf8(rest).ok()?;
    Some(AError {
        code,
        index,
        command: if cmd.is_empty() { None } else { Some(String::from_utf8(cmd.to_vec()).ok()?) },
        message: message.to_string(),
    })
}

enum St {
    Initial,
    Single(DFrame),
    List(Vec<DFrame>, DFrame),
}

pub fn reference_decode(s: &[u8]) -> RefDecoded {
    let mut p = 0usize;
    let mut responses = Vec::new();
    let mut st = St::Initial;
    let mut complete_lines = 0usize;
    let fin = |responses: Vec<DResponse>, end: RefEnd, complete_lines: usize| RefDecoded { responses, end, complete_lines };
    loop {
        if p >= s.len() {
            let end = if matches!(st, St::Initial) { RefEnd::Clean } else { RefEnd::Eof };
            return fin(responses, end, complete_lines);
        }
        let lf = s[p..].iter().position(|&b| b == b'\n');
        let Some(lf) = lf else {
            // incomplete last line
            return fin(responses, RefEnd::EofOrInvalid, complete_lines);
        };
        let line = &s[p..p + lf];
        let after = p + lf + 1;
        complete_lines += 1;
        if line == b"OK" {
            let r = match std::mem::replace(&mut st, St::Initial) {
                St::Initial => DResponse { frames: vec![DFrame { fields: vec![], binary: None }], error: None },
                St::Single(f) => DResponse { frames: vec![f], error: None },
                St::List(done, _cur) => DResponse { frames: done, error: None },
            };
            responses.push(r);
            p = after;
            continue;
        }
        if line == b"list_OK" {
            st = match std::mem::replace(&mut st, St::Initial) {
                St::Initial => St::List(vec![DFrame { fields: vec![], binary: None }], DFrame { fields: vec![], binary: None }),
                St::Single(f) => St::List(vec![f], DFrame { fields: vec![], binary: None }),
                St::List(mut done, cur) => {
                    done.push(cur);
                    St::List(done, DFrame { fields: vec![], binary: None })
                }
            };
            p = after;
            continue;
        }
        if line.starts_with(b"ACK ") {
            match parse_ack(line) {
                Some(e) => {
                    let r = match std::mem::replace(&mut st, St::Initial) {
                        St::Initial | St::Single(_) => DResponse { frames: vec![], error: Some(e) },
                        St::List(done, _) => DResponse { frames: done, error: Some(e) },
                    };
                    responses.push(r);
                    p = after;
                    continue;
                }
                None => return fin(responses, RefEnd::Invalid, complete_lines),
            }
        }
        if let Some(d) = line.strip_prefix(b"binary: ") {
            if !d.is_empty() && d.iter().all(|b| b.is_ascii_digit()) {
                match parse_u64(d).and_then(|n| usize::try_from(n).ok()) {
                    None => return fin(responses, RefEnd::Abstain, complete_lines),
                    Some(n) => {
                        // need n bytes + LF
                        let avail = s.len() - after;
                        if avail < n || avail == n {
                            // payload (or its terminator) not complete
                            // if payload complete but terminator missing -> Eof as well
                            return fin(responses, RefEnd::Eof, complete_lines);
                        }
                        if s[after + n] != b'\n' {
                            return fin(responses, RefEnd::Invalid, complete_lines);
                        }
                        let payload = s[after..after + n].to_vec();
                        match &mut st {
                            St::Initial => st = St::Single(DFrame { fields: vec![], binary: Some(payload) }),
                            St::Single(f) | St::List(_, f) => f.binary = Some(payload),
                        }
                        p = after + n + 1;
                        continue;
                    }
                }
            }
            // fall through: ordinary field named "binary"
        }
        // key: value
        let klen = line.iter().take_while(|&&b| is_key_byte(b)).count();
        if klen == 0 || !line[klen..].starts_with(b": ") {
            return fin(responses, RefEnd::Invalid, complete_lines);
        }
        let Ok(value) = std::str::from_utf8(&line[klen + 2..]) else {
            return fin(responses, RefEnd::Invalid, complete_lines);
        };
        let key = String::from_utf8(line[..klen].to_vec()).unwrap();
        let kv = (key, value.to_string());
        match &mut st {
            St::Initial => st = St::Single(DFrame { fields: vec![kv], binary: None }),
            St::Single(f) | St::List(_, f) => f.fields.push(kv),
        }
        p = after;
    }
}

/// Reference for the greeting line: `OK MPD <version>\n`, version = one or more non-LF bytes that
/// are valid UTF-8.
#[derive(Clone, Debug, PartialEq, Eq)]
pub enum RefGreeting {
    Ok(String),
    Invalid,
    Eof,
    /// stream ends without LF and the bytes so far are not a prefix of any valid greeting:
    /// a decoder may report Invalid (it can already tell) or Eof
    EofOrInvalid,
}

pub fn reference_greeting(s: &[u8]) -> (RefGreeting, usize) {
    const P: &[u8] = b"OK MPD ";
    match s.iter().position(|&b| b == b'\n') {
        Some(lf) => {
            let line = &s[..lf];
            if let Some(v) = line.strip_prefix(P) {
                if v.is_empty() {
                    return (RefGreeting::Invalid, lf + 1);
                }
                match std::str::from_utf8(v) {
                    Ok(v) => (RefGreeting::Ok(v.to_string()), lf + 1),
                    Err(_) => (RefGreeting::Invalid, lf + 1),
                }
            } else {
                (RefGreeting::Invalid, lf + 1)
            }
        }
        None => {
            // no line end: still a possible prefix?
            let n = s.len().min(P.len());
            if s[..n] == P[..n] {
                // version bytes so far: cannot know about UTF-8 validity of an incomplete tail
                (RefGreeting::Eof, s.len())
            } else {
                (RefGreeting::EofOrInvalid, s.len())
            }
        }
    }
}
