//! Tables typed by hand from the MPD protocol reference / MPD sources (trusted base; NOT derived
//! from /repo): tag names (tag/Names.c), idle subsystem names (IdleFlags.cxx).

use mpd_client::tag::Tag;

/// (named variant, protocol name) — MPD 0.23 `tag_item_names`.
pub fn named_tags() -> Vec<(Tag, &'static str)> {
    vec![
        (Tag::Artist, "Artist"),
        (Tag::ArtistSort, "ArtistSort"),
        (Tag::Album, "Album"),
        (Tag::AlbumSort, "AlbumSort"),
        (Tag::AlbumArtist, "AlbumArtist"),
        (Tag::AlbumArtistSort, "AlbumArtistSort"),
        (Tag::Title, "Title"),
        (Tag::Track, "Track"),
        (Tag::Name, "Name"),
        (Tag::Genre, "Genre"),
        (Tag::Date, "Date"),
        (Tag::OriginalDate, "OriginalDate"),
        (Tag::Composer, "Composer"),
        (Tag::ComposerSort, "ComposerSort"),
        (Tag::Performer, "Performer"),
        (Tag::Conductor, "Conductor"),
        (Tag::Work, "Work"),
        (Tag::Ensemble, "Ensemble"),
        (Tag::Movement, "Movement"),
        (Tag::MovementNumber, "MovementNumber"),
        (Tag::Location, "Location"),
        (Tag::Grouping, "Grouping"),
        (Tag::Comment, "Comment"),
        (Tag::Disc, "Disc"),
        (Tag::Label, "Label"),
        (Tag::MusicBrainzArtistId, "MUSICBRAINZ_ARTISTID"),
        (Tag::MusicBrainzReleaseId, "MUSICBRAINZ_ALBUMID"),
        (Tag::MusicBrainzReleaseArtistId, "MUSICBRAINZ_ALBUMARTISTID"),
        (Tag::MusicBrainzRecordingId, "MUSICBRAINZ_TRACKID"),
        (Tag::MusicBrainzTrackId, "MUSICBRAINZ_RELEASETRACKID"),
        (Tag::MusicBrainzWorkId, "MUSICBRAINZ_WORKID"),
    ]
}

/// Other names that are valid in the places a tag name can appear (filters, list types).
pub const OTHER_TAG_NAMES: &[&str] = &["any", "file", "Mood", "x-custom", "my_tag", "TitleSort", "ShowMovement", "a", "Z", "foo-bar_baz"];

/// MPD `idle_names` (IdleFlags.cxx).
pub const SUBSYSTEMS: &[&str] = &[
    "database", "stored_playlist", "playlist", "player", "mixer", "output", "options", "sticker", "update", "subscription", "message", "neighbor", "mount", "partition",
];

use mpd_client::client::Subsystem;

/// (named variant, protocol name): the variant documented for each idle subsystem name.
pub fn named_subsystems() -> Vec<(Subsystem, &'static str)> {
    vec![
        (Subsystem::Database, "database"),
        (Subsystem::StoredPlaylist, "stored_playlist"),
        (Subsystem::Queue, "playlist"),
        (Subsystem::Player, "player"),
        (Subsystem::Mixer, "mixer"),
        (Subsystem::Output, "output"),
        (Subsystem::Options, "options"),
        (Subsystem::Sticker, "sticker"),
        (Subsystem::Update, "update"),
        (Subsystem::Subscription, "subscription"),
        (Subsystem::Message, "message"),
        (Subsystem::Neighbor, "neighbor"),
        (Subsystem::Mount, "mount"),
        (Subsystem::Partition, "partition"),
    ]
}
