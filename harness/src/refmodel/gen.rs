//! Generators of abstract responses / sessions / hostile byte streams.

use super::wire::{AError, AFrame, AResponse, Form};
use crate::util::rng::Rng;

pub const KEYWORD_KEYS: &[&str] = &["OK", "ACK", "list_OK", "binary", "changed", "file", "Last-Modified", "a", "Z", "_", "-", "x-y_z"];

pub const KEYWORD_VALUES: &[&str] = &[
    "",
    "OK",
    "list_OK",
    "ACK [5@0] {} x",
    "binary: 3",
    "OK MPD 0.23.5",
    " ",
    "  leading and trailing  ",
    "a: b: c",
    "\r",
    "x\ry",
    "\0",
    "a\0b",
    "é",
    "€uro",
    "😀 smile",
    "日本語のタイトル",
    "\u{feff}bom",
    "tab\there",
    "\\backslash\\",
    "\"quoted\"",
];

pub fn gen_key(r: &mut Rng) -> String {
    if r.chance(1, 4) {
        return r.pick(KEYWORD_KEYS).to_string();
    }
    const ALPHA: &[u8] = b"abcdefghijklmnopqrstuvwxyzABCDEFGHIJKLMNOPQRSTUVWXYZ_-";
    let n = if r.chance(1, 10) { r.range(10, 24) } else { r.range(1, 9) };
    (0..n).map(|_| *r.pick(ALPHA) as char).collect()
}

pub fn gen_text(r: &mut Rng, max: usize) -> String {
    let n = r.below(max + 1);
    let mut s = String::new();
    while s.len() < n {
        match r.below(12) {
            0 => s.push(' '),
            1 => s.push(*r.pick(&['é', 'ü', 'ß', 'Ω'])),
            2 => s.push(*r.pick(&['€', '日', '本', '\u{2028}'])),
            3 => s.push(*r.pick(&['😀', '🎵', '𝄞'])),
            4 => s.push(*r.pick(&[':', '-', '_', '/', '.', '=', '"', '\'', '\\', '(', ')', '!', '\t', '\r', '\0'])),
            _ => s.push((b'a' + r.below(26) as u8) as char),
        }
    }
    s
}

pub fn gen_value(r: &mut Rng) -> String {
    match r.below(10) {
        0 | 1 => r.pick(KEYWORD_VALUES).to_string(),
        2 => {
            // long value
            let n = if r.chance(1, 4) { r.range(4000, 10240) } else { r.range(100, 600) };
            let mut s = gen_text(r, 40);
            while s.len() < n {
                s.push_str("0123456789abcdef");
            }
            s
        }
        3 => format!("{}", r.next_u64()),
        4 if r.chance(1, 2) => {
            // long text of multi-byte characters at a random byte alignment (anything that cuts a value at a fixed
            // byte offset - a log excerpt, a size limit - meets the middle of a character)
            let mut s = "x".repeat(r.below(4));
            let chars = ['é', 'ß', '日', '本', '😀', 'Ж', 'ا', '€'];
            let n = *r.pick(&[30usize, 70, 130, 260, 520, 1030, 4100]);
            while s.len() < n {
                s.push(chars[r.below(chars.len())]);
            }
            s
        }
        _ => gen_text(r, 30),
    }
}

/// Binary payload classes, including bytes that look like protocol lines.
pub fn gen_payload(r: &mut Rng) -> Vec<u8> {
    match r.below(12) {
        0 => Vec::new(),
        1 => b"OK\n".to_vec(),
        2 => b"list_OK\n".to_vec(),
        3 => b"ACK [5@0] {} boom\n".to_vec(),
        4 => b"\n".to_vec(),
        5 => b"foo: bar\nOK\n".to_vec(),
        6 => {
            // a complete well-formed response with its own binary part
            let mut v = b"size: 3\nbinary: 3\nabc\nOK\n".to_vec();
            v.extend_from_slice(b"binary: 99999999\n");
            v
        }
        7 => vec![0u8, 0xff, 0xfe, b'\n', 0, b'\n'],
        8 => {
            let n = r.range(4000, 12288);
            let mut v = r.bytes(n);
            // sprinkle line-feeds and markers
            for _ in 0..8 {
                let p = r.below(v.len());
                v[p] = b'\n';
            }
            if v.len() > 100 {
                let p = r.below(v.len() - 10);
                v[p..p + 3].copy_from_slice(b"OK\n");
            }
            v
        }
        9 => {
            let n = r.range(1, 9);
            r.bytes(n)
        }
        _ => {
            let n = r.range(1, 300);
            r.bytes(n)
        }
    }
}

pub fn gen_frame(r: &mut Rng, allow_binary: bool) -> AFrame {
    let nf = match r.below(10) {
        0 => 0,
        1 => r.range(10, 30),
        _ => r.range(1, 6),
    };
    let mut fields: Vec<(String, String)> = (0..nf).map(|_| (gen_key(r), gen_value(r))).collect();
    for (k, v) in fields.iter_mut() {
        // `binary: <digits>` is the header of a binary part, not a field: the protocol cannot
        // carry a field of that shape
        if k == "binary" && !v.is_empty() && v.bytes().all(|b| b.is_ascii_digit()) {
            v.insert(0, 'x');
        }
    }
    let binary = if allow_binary && r.chance(1, 4) { Some((r.below(nf + 1), gen_payload(r))) } else { None };
    AFrame { fields, binary }
}

pub fn gen_error(r: &mut Rng, index: u64) -> AError {
    let code = match r.below(6) {
        0 => 0,
        1 => u64::MAX,
        2 => 50,
        3 => 5,
        _ => r.below(60) as u64,
    };
    let command = match r.below(5) {
        0 => None,
        1 => Some("_".to_string()),
        2 => Some("command_list_ok_begin".to_string()),
        3 => Some("Play".to_string()),
        _ => Some("play".to_string()),
    };
    let message = match r.below(6) {
        0 => String::new(),
        1 => "unknown command \"foo\"".to_string(),
        2 => "naïve ünïcode ☠".to_string(),
        3 => "OK".to_string(),
        4 => " leading".to_string(),
        _ => gen_text(r, 40),
    };
    let index = if r.chance(1, 8) { u64::MAX } else { index };
    AError { code, index, command, message }
}

/// Output a failing command printed before its ACK: at least one field line or a binary part.
pub fn gen_partial(r: &mut Rng) -> AFrame {
    let mut f = gen_frame(r, true);
    f.fields.truncate(4);
    if f.fields.is_empty() && f.binary.is_none() {
        f.fields.push(("file".to_string(), "a.mp3".to_string()));
    }
    if let Some((p, _)) = f.binary.as_mut() {
        *p = (*p).min(f.fields.len());
    }
    f
}

pub fn gen_response(r: &mut Rng) -> AResponse {
    let list = r.chance(2, 5);
    let fail = r.chance(1, 5);
    if !list {
        if fail {
            let partial = if r.chance(1, 3) { Some(gen_partial(r)) } else { None };
            AResponse { frames: vec![], error: Some(gen_error(r, 0)), form: Form::Single, partial }
        } else {
            AResponse { frames: vec![gen_frame(r, true)], error: None, form: Form::Single, partial: None }
        }
    } else {
        let n = if fail { r.below(6) } else { r.range(1, 8) };
        let frames: Vec<AFrame> = (0..n).map(|_| gen_frame(r, true)).collect();
        let error = if fail { Some(gen_error(r, n as u64)) } else { None };
        let partial = if error.is_some() && r.chance(1, 3) { Some(gen_partial(r)) } else { None };
        AResponse { frames, error, form: Form::List, partial }
    }
}

pub fn gen_session(r: &mut Rng, max: usize) -> Vec<AResponse> {
    let n = r.range(1, max);
    (0..n).map(|_| gen_response(r)).collect()
}

/// A response carrying a very large binary part (beyond several doublings of the receive buffer),
/// followed by one or two ordinary responses (which may arrive in the same read as its end).
pub fn gen_huge_session(r: &mut Rng) -> Vec<AResponse> {
    let base = *r.pick(&[66_000usize, 70_000, 98_000, 100_000, 131_072, 140_000, 200_000, 262_144, 270_000, 530_000, 1_100_000, 2_300_000]);
    let n = base + r.below(3000);
    let mut payload = vec![0u8; n];
    for (i, b) in payload.iter_mut().enumerate() {
        *b = if i % 101 == 0 { b'\n' } else { (i as u32).wrapping_mul(2654435761) as u8 };
    }
    let mut out = vec![AResponse::ok_single(AFrame { fields: vec![("size".into(), format!("{}", n)), ("type".into(), "image/png".into())], binary: Some((2, payload)) })];
    for _ in 0..r.range(1, 2) {
        let mut next = gen_response(r);
        // keep most follow-ups small; one in three carries 5-40 KB (more than a default-sized buffer holds), so that a
        // lot of the next response is already buffered when the big one completes
        let big_follow_up = r.chance(1, 3);
        for f in next.frames.iter_mut() {
            if let Some((_, b)) = f.binary.as_mut() {
                b.truncate(200);
            }
        }
        if big_follow_up {
            let m = r.range(5_000, 40_000);
            let filler: Vec<u8> = (0..m).map(|i| if i % 57 == 0 { b'\n' } else { (i as u32).wrapping_mul(40503) as u8 }).collect();
            match next.frames.first_mut() {
                Some(f) => f.binary = Some((f.fields.len(), filler)),
                None => next.frames.push(AFrame { fields: vec![("size".into(), format!("{}", m))], binary: Some((1, filler)) }),
            }
        }
        out.push(next);
    }
    out
}

/// A response whose encoded length is steered to land around a buffer edge (4096·2^k ± small).
pub fn gen_edge_session(r: &mut Rng) -> Vec<AResponse> {
    let edge = 4096usize << r.below(3);
    let delta = r.below(7) as isize - 3; // -3..=3
    let target = (edge as isize + delta) as usize;
    // variants: one long value, a binary payload straddling the edge, response ending at edge
    let variant = r.below(3);
    let mut first = match variant {
        0 => AResponse::ok_single(AFrame { fields: vec![("v".into(), String::new())], binary: None }),
        1 => AResponse::ok_single(AFrame { fields: vec![("size".into(), "1".into())], binary: Some((1, Vec::new())) }),
        _ => AResponse {
            frames: vec![AFrame { fields: vec![("a".into(), "b".into())], binary: None }, AFrame { fields: vec![("v".into(), String::new())], binary: None }],
            error: None,
            form: Form::List,
            partial: None,
        },
    };
    // pad to target
    let base = first.encode().len();
    if target > base {
        let mut pad = target - base;
        match variant {
            1 => {
                // the length header grows with the number of digits; adjust
                let mut payload = vec![b'x'; pad];
                loop {
                    first.frames[0].binary = Some((1, payload.clone()));
                    let l = first.encode().len();
                    if l == target || payload.is_empty() {
                        break;
                    }
                    if l > target {
                        payload.truncate(payload.len() - (l - target).min(payload.len()));
                    } else {
                        payload.extend(std::iter::repeat(b'y').take(target - l));
                    }
                }
                // make it hostile
                for i in (0..payload.len()).step_by(97) {
                    payload[i] = b'\n';
                }
                first.frames[0].binary = Some((1, payload));
            }
            _ => {
                let fi = first.frames.len() - 1;
                let v = &mut first.frames[fi].fields[0].1;
                while pad > 0 {
                    v.push((b'a' + (pad % 26) as u8) as char);
                    pad -= 1;
                }
            }
        }
    }
    let mut out = vec![first];
    // followed by 0-2 ordinary responses so the next response starts at/around the edge
    for _ in 0..r.below(3) {
        out.push(gen_response(r));
    }
    out
}

/// Mutate an encoded stream: flips, inserts, deletes, truncation, line duplication, length corruption.
pub fn mutate(r: &mut Rng, bytes: &[u8]) -> Vec<u8> {
    let mut v = bytes.to_vec();
    let n = r.range(1, 8);
    for _ in 0..n {
        if v.is_empty() {
            v.push(r.next_u64() as u8);
            continue;
        }
        match r.below(9) {
            0 => {
                let p = r.below(v.len());
                v[p] ^= 1 << r.below(8);
            }
            1 => {
                let p = r.below(v.len() + 1);
                let b = *r.pick(&[b'\n', b':', b' ', b'0', b'9', 0u8, 0xff, b'O', b'K', b'A', b'[', b'@', b'{']);
                v.insert(p, b);
            }
            2 => {
                let p = r.below(v.len());
                v.remove(p);
            }
            3 => {
                let p = r.below(v.len() + 1);
                v.truncate(p);
            }
            4 => {
                // duplicate a line
                let lines: Vec<usize> = v.iter().enumerate().filter(|(_, &b)| b == b'\n').map(|(i, _)| i + 1).collect();
                if lines.len() >= 2 {
                    let i = r.below(lines.len() - 1);
                    let seg = v[lines[i]..lines[i + 1]].to_vec();
                    let at = lines[r.below(lines.len())];
                    let tail = v.split_off(at);
                    v.extend_from_slice(&seg);
                    v.extend_from_slice(&tail);
                }
            }
            5 => {
                // corrupt a binary length
                if let Some(p) = find(&v, b"binary: ") {
                    let p = p + 8;
                    if p < v.len() {
                        let digits: &[&[u8]] = &[b"0", b"1", b"99999999999", b"18446744073709551615", b"18446744073709551616", b"-1", b"+1", b"", b" 3", b"4096", b"4097"];
                        let d = r.pick(digits);
                        let end = v[p..].iter().position(|&b| b == b'\n').map(|e| p + e).unwrap_or(v.len());
                        v.splice(p..end, d.iter().copied());
                    }
                }
            }
            6 => {
                // swap two lines
                let lines: Vec<usize> = std::iter::once(0).chain(v.iter().enumerate().filter(|(_, &b)| b == b'\n').map(|(i, _)| i + 1)).collect();
                if lines.len() >= 3 {
                    let i = r.below(lines.len() - 2);
                    let a = v[lines[i]..lines[i + 1]].to_vec();
                    let b = v[lines[i + 1]..lines[i + 2]].to_vec();
                    let mut nv = v[..lines[i]].to_vec();
                    nv.extend_from_slice(&b);
                    nv.extend_from_slice(&a);
                    nv.extend_from_slice(&v[lines[i + 2]..]);
                    v = nv;
                }
            }
            7 => {
                // inject invalid UTF-8 into a value
                let p = r.below(v.len());
                v[p] = *r.pick(&[0xffu8, 0xc0, 0x80, 0xed]);
            }
            _ => {
                let p = r.below(v.len() + 1);
                let tok: &[&[u8]] = &[b"OK\n", b"list_OK\n", b"ACK [", b"ACK [5@0] {} x\n", b"binary: ", b": ", b"OK MPD 0.1\n", b"\n\n"];
                let t = r.pick(tok);
                let tail = v.split_off(p);
                v.extend_from_slice(t);
                v.extend_from_slice(&tail);
            }
        }
    }
    v
}

fn find(h: &[u8], n: &[u8]) -> Option<usize> {
    h.windows(n.len()).position(|w| w == n)
}

/// Streams built from a protocol dictionary in random order.
pub fn dictionary_stream(r: &mut Rng) -> Vec<u8> {
    const D: &[&[u8]] = &[
        b"OK", b"OK\n", b"list_OK\n", b"ACK ", b"ACK [", b"[", b"@", b"]", b"{", b"}", b" ", b"binary: ", b"binary", b": ", b":", b"\n", b"0", b"1", b"5", b"9", b"4096",
        b"18446744073709551615", b"18446744073709551616", b"99999999999999999999999999999999999999", b"foo", b"Artist", b"x-y", b"_", b"-", b"\r", b"\0", b"\xff", b"\xc3\xa9",
        b"\xc3", b"+", b"-1", b"ACK [5@0] {} msg\n", b"ACK [5@0] {play} msg\n", b"a: b\n", b"binary: 3\nabc\n", b"binary: 0\n\n", b"OK MPD ", b"OK MPD 0.23.5\n",
    ];
    let n = r.range(1, 40);
    let mut v = Vec::new();
    for _ in 0..n {
        let d: &[u8] = D[r.below(D.len())];
        v.extend_from_slice(d);
    }
    v
}

/// Numeric edge cases for `binary:` and ACK numbers.
pub const NUM_EDGES: &[&str] = &[
    "0", "1", "4095", "4096", "4097", "2147483648", "4294967296", "9223372036854775808", "18446744073709551615", "18446744073709551616",
    "9999999999999999999999999999999999999999", "0000000000000000000000000000000000000001", "00", "+1", "-1", "", " ", "1 ", " 1", "1e3", "0x10",
];
