//! Vec-based model of `Frame` (ordered multimap with removal) and of response iteration.

use super::wire::{AError, DFrame};

#[derive(Clone, Debug, PartialEq, Eq)]
pub struct FrameModel {
    pub slots: Vec<Option<(String, String)>>,
    pub binary: Option<Vec<u8>>,
}

impl FrameModel {
    pub fn from_d(d: &DFrame) -> FrameModel {
        FrameModel { slots: d.fields.iter().cloned().map(Some).collect(), binary: d.binary.clone() }
    }
    pub fn remaining(&self) -> Vec<(String, String)> {
        self.slots.iter().flatten().cloned().collect()
    }
    pub fn find(&self, k: &str) -> Option<String> {
        self.slots.iter().flatten().find(|(kk, _)| kk == k).map(|(_, v)| v.clone())
    }
    pub fn get(&mut self, k: &str) -> Option<String> {
        for s in self.slots.iter_mut() {
            if let Some((kk, _)) = s {
                if kk == k {
                    return s.take().map(|(_, v)| v);
                }
            }
        }
        None
    }
    pub fn fields_len(&self) -> usize {
        self.slots.iter().flatten().count()
    }
    pub fn is_empty(&self) -> bool {
        self.fields_len() == 0 && self.binary.is_none()
    }
}

/// Double-ended cursor over a sequence (model of the iterators).
#[derive(Clone, Debug)]
pub struct DequeCursor<T> {
    pub items: std::collections::VecDeque<T>,
}

impl<T: Clone> DequeCursor<T> {
    pub fn new(v: Vec<T>) -> Self {
        DequeCursor { items: v.into() }
    }
    pub fn next(&mut self) -> Option<T> {
        self.items.pop_front()
    }
    pub fn next_back(&mut self) -> Option<T> {
        self.items.pop_back()
    }
    pub fn len(&self) -> usize {
        self.items.len()
    }
}

/// An item of response iteration in the model.
#[derive(Clone, Debug, PartialEq, Eq)]
pub enum RItem {
    Frame(DFrame),
    Error(AError),
}

pub fn response_items(frames: &[DFrame], error: &Option<AError>) -> Vec<RItem> {
    let mut v: Vec<RItem> = frames.iter().cloned().map(RItem::Frame).collect();
    if let Some(e) = error {
        v.push(RItem::Error(e.clone()));
    }
    v
}
