//! Port of MPD's request line handling (client/ClientRead.cxx: cut at LF, StripRight, C string)
//! and of util/Tokenizer.cxx (NextWord, NextParam = NextString | NextUnquoted) as used by
//! command/AllCommands.cxx:command_process. Written from MPD 0.23's documented behaviour; this is
//! the trusted base for C06/C07/C11/C13/C15.
//!
//! Not modelled (server policy, not tokenisation): the 16-argument limit and the 4 KiB input
//! buffer limit. Generators stay below both.

#[derive(Clone, Debug, PartialEq, Eq)]
pub enum TokErr {
    NoLineEnd,
    NoCommand,
    LetterExpected,
    InvalidWordChar,
    InvalidUnquotedChar,
    MissingClosingQuote,
    SpaceExpectedAfterQuote,
}

impl TokErr {
    pub fn name(&self) -> &'static str {
        match self {
            TokErr::NoLineEnd => "no line end",
            TokErr::NoCommand => "No command given",
            TokErr::LetterExpected => "Letter expected",
            TokErr::InvalidWordChar => "Invalid word character",
            TokErr::InvalidUnquotedChar => "Invalid unquoted character",
            TokErr::MissingClosingQuote => "Missing closing '\"'",
            TokErr::SpaceExpectedAfterQuote => "Space expected after closing '\"'",
        }
    }
}

fn ws(b: u8) -> bool {
    // IsWhitespaceFast / IsWhitespaceNotNull
    b != 0 && b <= 0x20
}

/// Split what the client wrote into request lines (without the LF). The remainder without LF, if
/// any, is returned separately.
pub fn split_lines(written: &[u8]) -> (Vec<&[u8]>, &[u8]) {
    let mut lines = Vec::new();
    let mut p = 0;
    while let Some(lf) = written[p..].iter().position(|&b| b == b'\n') {
        lines.push(&written[p..p + lf]);
        p += lf + 1;
    }
    (lines, &written[p..])
}

/// The line as MPD's command processor sees it: trailing bytes <= 0x20 stripped, cut at first NUL.
pub fn effective_line(line: &[u8]) -> &[u8] {
    let mut end = line.len();
    while end > 0 && line[end - 1] <= 0x20 {
        end -= 1;
    }
    let line = &line[..end];
    match line.iter().position(|&b| b == 0) {
        Some(n) => &line[..n],
        None => line,
    }
}

/// Tokenise one request line (without LF) the way MPD does.
pub fn tokenize(line: &[u8]) -> Result<(Vec<u8>, Vec<Vec<u8>>), TokErr> {
    let s = effective_line(line);
    let mut p = 0usize;
    // NextWord
    if s.is_empty() {
        return Err(TokErr::NoCommand);
    }
    if !s[0].is_ascii_alphabetic() {
        return Err(TokErr::LetterExpected);
    }
    let start = p;
    p += 1;
    let mut name_end = s.len();
    while p < s.len() {
        let b = s[p];
        if ws(b) {
            name_end = p;
            p += 1;
            while p < s.len() && ws(s[p]) {
                p += 1;
            }
            break;
        }
        if !(b.is_ascii_alphanumeric() || b == b'_') {
            return Err(TokErr::InvalidWordChar);
        }
        p += 1;
    }
    if name_end == s.len() {
        p = s.len();
    }
    let name = s[start..name_end].to_vec();
    let mut args = Vec::new();
    // NextParam until end
    while p < s.len() {
        if s[p] == b'"' {
            // NextString
            p += 1;
            let mut out = Vec::new();
            loop {
                if p >= s.len() {
                    return Err(TokErr::MissingClosingQuote);
                }
                let mut b = s[p];
                if b == b'"' {
                    break;
                }
                if b == b'\\' {
                    p += 1;
                    if p >= s.len() {
                        return Err(TokErr::MissingClosingQuote);
                    }
                    b = s[p];
                }
                out.push(b);
                p += 1;
            }
            // closing quote
            p += 1;
            if p < s.len() && !ws(s[p]) {
                return Err(TokErr::SpaceExpectedAfterQuote);
            }
            while p < s.len() && ws(s[p]) {
                p += 1;
            }
            args.push(out);
        } else {
            // NextUnquoted
            let valid = |b: u8| b > 0x20 && b != b'"' && b != b'\'';
            if !valid(s[p]) {
                return Err(TokErr::InvalidUnquotedChar);
            }
            let st = p;
            p += 1;
            let mut end = s.len();
            while p < s.len() {
                if ws(s[p]) {
                    end = p;
                    p += 1;
                    while p < s.len() && ws(s[p]) {
                        p += 1;
                    }
                    break;
                }
                if !valid(s[p]) {
                    return Err(TokErr::InvalidUnquotedChar);
                }
                p += 1;
            }
            if end == s.len() {
                p = s.len();
            }
            args.push(s[st..end].to_vec());
        }
    }
    Ok((name, args))
}

/// Self-test pairs: protocol document ("Escaping String Values") and Tokenizer test style cases.
pub fn selftest() -> Result<(), String> {
    let ok = |line: &str, name: &str, args: &[&str]| -> Result<(), String> {
        match tokenize(line.as_bytes()) {
            Ok((n, a)) => {
                let a: Vec<String> = a.iter().map(|x| String::from_utf8_lossy(x).to_string()).collect();
                if n != name.as_bytes() || a != args {
                    Err(format!("tokenizer self-test: {:?} -> {:?} {:?}, expected {:?} {:?}", line, String::from_utf8_lossy(&n), a, name, args))
                } else {
                    Ok(())
                }
            }
            Err(e) => Err(format!("tokenizer self-test: {:?} -> error {:?}, expected {:?} {:?}", line, e, name, args)),
        }
    };
    let err = |line: &str, e: TokErr| -> Result<(), String> {
        match tokenize(line.as_bytes()) {
            Err(x) if x == e => Ok(()),
            other => Err(format!("tokenizer self-test: {:?} -> {:?}, expected error {:?}", line, other, e)),
        }
    };
    // protocol document: find "(Artist == \"foo\\'bar\\\"\")"  -> one argument (Artist == "foo\'bar\"")
    ok(r#"find "(Artist == \"foo\\'bar\\\"\")""#, "find", &[r#"(Artist == "foo\'bar\"")"#])?;
    ok("a  b", "a", &["b"])?;
    ok(r#"a "x y" z"#, "a", &["x y", "z"])?;
    ok(r#"a "" z"#, "a", &["", "z"])?;
    ok("status", "status", &[])?;
    ok("status   \t ", "status", &[])?;
    ok("a b\\c", "a", &["b\\c"])?;
    ok("a1_b x", "a1_b", &["x"])?;
    ok("a \"x\\\\y\"", "a", &["x\\y"])?;
    ok("a \"x\\ay\"", "a", &["xay"])?;
    ok("a b\tc\rd", "a", &["b", "c", "d"])?;
    ok("a b\0c", "a", &["b"])?;
    ok("play 1:2", "play", &["1:2"])?;
    ok("a é€😀", "a", &["é€😀"])?;
    err("a x'y", TokErr::InvalidUnquotedChar)?;
    err("a 'x'", TokErr::InvalidUnquotedChar)?;
    err(r#"a "x"y"#, TokErr::SpaceExpectedAfterQuote)?;
    err(r#"a "x"#, TokErr::MissingClosingQuote)?;
    err(r#"a "x\"#, TokErr::MissingClosingQuote)?;
    err(r#"a \""#, TokErr::InvalidUnquotedChar)?;
    err("_a", TokErr::LetterExpected)?;
    err("1a", TokErr::LetterExpected)?;
    err(" a", TokErr::LetterExpected)?;
    err("", TokErr::NoCommand)?;
    err("   ", TokErr::NoCommand)?;
    err("a-b", TokErr::InvalidWordChar)?;
    Ok(())
}
