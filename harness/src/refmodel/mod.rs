//! Trusted base: reference models written independently of /repo.
pub mod filter;
pub mod framemodel;
pub mod gen;
pub mod mpdspec;
pub mod tokenizer;
pub mod wire;
