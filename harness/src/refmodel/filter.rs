// placeholder
