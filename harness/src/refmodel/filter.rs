//! Port of MPD's filter-expression grammar (song/Filter.cxx: SongFilter::Parse for one
//! parenthesised expression, ParseExpression, ExpectWord, ExpectQuoted, ParseStringFilter).
//! Written from MPD 0.23's documented behaviour; trusted base for C11 (and the filter arguments of
//! C15).

#[derive(Clone, Copy, Debug, PartialEq, Eq, Hash)]
pub enum Op {
    Eq,
    Ne,
    Contains,
    NotContains,
    StartsWith,
    NotStartsWith,
    Match,
    NotMatch,
}

#[derive(Clone, Debug, PartialEq, Eq)]
pub enum Tree {
    Leaf { tag: String, op: Op, value: Vec<u8> },
    Not(Box<Tree>),
    And(Vec<Tree>),
}

impl Tree {
    /// Normal form modulo associativity of AND: nested ANDs are flattened; tags compare
    /// case-insensitively in MPD (`locate_parse_type`), so they are lower-cased.
    pub fn normalize(&self) -> Tree {
        match self {
            Tree::Leaf { tag, op, value } => Tree::Leaf { tag: tag.to_ascii_lowercase(), op: *op, value: value.clone() },
            Tree::Not(t) => Tree::Not(Box::new(t.normalize())),
            Tree::And(items) => {
                let mut out = Vec::new();
                for it in items {
                    match it.normalize() {
                        Tree::And(inner) => out.extend(inner),
                        other => out.push(other),
                    }
                }
                Tree::And(out)
            }
        }
    }
    pub fn nodes(&self) -> usize {
        match self {
            Tree::Leaf { .. } => 1,
            Tree::Not(t) => 1 + t.nodes(),
            Tree::And(v) => 1 + v.iter().map(|t| t.nodes()).sum::<usize>(),
        }
    }
    pub fn depth(&self) -> usize {
        match self {
            Tree::Leaf { .. } => 1,
            Tree::Not(t) => 1 + t.depth(),
            Tree::And(v) => 1 + v.iter().map(|t| t.depth()).max().unwrap_or(0),
        }
    }
    pub fn values(&self, out: &mut Vec<Vec<u8>>) {
        match self {
            Tree::Leaf { value, .. } => out.push(value.clone()),
            Tree::Not(t) => t.values(out),
            Tree::And(v) => v.iter().for_each(|t| t.values(out)),
        }
    }
    pub fn describe(&self) -> String {
        match self {
            Tree::Leaf { tag, op, value } => format!("({} {:?} {:?})", tag, op, String::from_utf8_lossy(value)),
            Tree::Not(t) => format!("NOT{}", t.describe()),
            Tree::And(v) => format!("AND[{}]", v.iter().map(|t| t.describe()).collect::<Vec<_>>().join(", ")),
        }
    }
}

struct P<'a> {
    s: &'a [u8],
    p: usize,
}

fn ws_not_null(b: u8) -> bool {
    b != 0 && b <= 0x20
}

fn is_word_char(b: u8) -> bool {
    b.is_ascii_alphabetic() || b == b'_' || b == b'-'
}

impl<'a> P<'a> {
    fn cur(&self) -> u8 {
        // C string: reading the terminator yields 0
        self.s.get(self.p).copied().unwrap_or(0)
    }
    fn at(&self, off: usize) -> u8 {
        self.s.get(self.p + off).copied().unwrap_or(0)
    }
    fn strip_left(&mut self) {
        while ws_not_null(self.cur()) {
            self.p += 1;
        }
    }
    fn expect_word(&mut self) -> Result<&'a [u8], String> {
        let b = self.p;
        if !is_word_char(self.cur()) {
            return Err("Word expected".into());
        }
        while is_word_char(self.cur()) {
            self.p += 1;
        }
        let e = self.p;
        self.strip_left();
        Ok(&self.s[b..e])
    }
    fn after_prefix_ignore_case(&self, prefix: &[u8]) -> Option<usize> {
        let rest = &self.s[self.p.min(self.s.len())..];
        if rest.len() >= prefix.len() && rest[..prefix.len()].eq_ignore_ascii_case(prefix) {
            Some(self.p + prefix.len())
        } else {
            None
        }
    }
    fn expect_quoted(&mut self) -> Result<Vec<u8>, String> {
        let q = self.cur();
        self.p += 1;
        if q != b'\'' && q != b'"' {
            return Err("Quoted string expected".into());
        }
        let mut out = Vec::new();
        while self.cur() != q {
            if self.cur() == b'\\' {
                self.p += 1;
            }
            if self.cur() == 0 {
                return Err("Closing quote not found".into());
            }
            out.push(self.cur());
            self.p += 1;
            if out.len() >= 4096 {
                return Err("Quoted value is too long".into());
            }
        }
        self.p += 1;
        self.strip_left();
        Ok(out)
    }
    fn string_filter(&mut self) -> Result<(Op, Vec<u8>), String> {
        for (prefix, op) in [
            (&b"contains "[..], Op::Contains),
            (&b"!contains "[..], Op::NotContains),
            (&b"starts_with "[..], Op::StartsWith),
            (&b"!starts_with "[..], Op::NotStartsWith),
        ] {
            if let Some(a) = self.after_prefix_ignore_case(prefix) {
                self.p = a;
                self.strip_left();
                return Ok((op, self.expect_quoted()?));
            }
        }
        if (self.cur() == b'!' || self.cur() == b'=') && self.at(1) == b'~' {
            let op = if self.cur() == b'!' { Op::NotMatch } else { Op::Match };
            self.p += 2;
            self.strip_left();
            return Ok((op, self.expect_quoted()?));
        }
        let op = if self.cur() == b'!' && self.at(1) == b'=' {
            Op::Ne
        } else if self.cur() == b'=' && self.at(1) == b'=' {
            Op::Eq
        } else {
            return Err("'==' or '!=' expected".into());
        };
        self.p += 2;
        self.strip_left();
        Ok((op, self.expect_quoted()?))
    }
    fn expression(&mut self, depth: usize) -> Result<Tree, String> {
        if depth > 200 {
            return Err("expression nested too deeply (harness limit)".into());
        }
        debug_assert_eq!(self.cur(), b'(');
        self.p += 1;
        self.strip_left();
        if self.cur() == b'(' {
            let first = self.expression(depth + 1)?;
            if self.cur() == b')' {
                self.p += 1;
                return Ok(first);
            }
            if self.expect_word()? != b"AND" {
                return Err("'AND' expected".into());
            }
            let mut items = vec![first];
            loop {
                if self.cur() != b'(' {
                    return Err("'(' expected".into());
                }
                items.push(self.expression(depth + 1)?);
                if self.cur() == b')' {
                    self.p += 1;
                    return Ok(Tree::And(items));
                }
                if self.expect_word()? != b"AND" {
                    return Err("'AND' expected".into());
                }
            }
        }
        if self.cur() == b'!' {
            self.p += 1;
            self.strip_left();
            if self.cur() != b'(' {
                return Err("'(' expected".into());
            }
            let inner = self.expression(depth + 1)?;
            if self.cur() != b')' {
                return Err("')' expected".into());
            }
            self.p += 1;
            self.strip_left();
            return Ok(Tree::Not(Box::new(inner)));
        }
        let tag = self.expect_word().map_err(|_| "Word expected (filter type)".to_string())?;
        let tag = String::from_utf8_lossy(tag).to_string();
        let (op, value) = self.string_filter()?;
        if self.cur() != b')' {
            return Err("')' expected".into());
        }
        self.p += 1;
        self.strip_left();
        Ok(Tree::Leaf { tag, op, value })
    }
}

/// Parse one filter argument (as delivered by the request tokenizer).
pub fn parse(arg: &[u8]) -> Result<Tree, String> {
    // C string
    let s = match arg.iter().position(|&b| b == 0) {
        Some(n) => &arg[..n],
        None => arg,
    };
    if s.first() != Some(&b'(') {
        return Err("not an expression (does not start with '(')".into());
    }
    let mut p = P { s, p: 0 };
    let t = p.expression(0)?;
    if p.p < s.len() {
        return Err("Unparsed garbage after expression".into());
    }
    Ok(t)
}

pub fn selftest() -> Result<(), String> {
    let leaf = |t: &str, op: Op, v: &str| Tree::Leaf { tag: t.into(), op, value: v.as_bytes().to_vec() };
    let cases: Vec<(&str, Result<Tree, ()>)> = vec![
        (r#"(Artist == "foo\'bar\"")"#, Ok(leaf("Artist", Op::Eq, "foo'bar\""))),
        (r#"(Artist == 'foo')"#, Ok(leaf("Artist", Op::Eq, "foo"))),
        (r#"((Artist == "a") AND (!(Album != "")))"#, Ok(Tree::And(vec![leaf("Artist", Op::Eq, "a"), Tree::Not(Box::new(leaf("Album", Op::Ne, "")))]))),
        (r#"(!(Artist contains "x y"))"#, Ok(Tree::Not(Box::new(leaf("Artist", Op::Contains, "x y"))))),
        (r#"(Title =~ "^a.*b$")"#, Ok(leaf("Title", Op::Match, "^a.*b$"))),
        (r#"(Title !~ "a")"#, Ok(leaf("Title", Op::NotMatch, "a"))),
        (r#"(Title == "a\\b")"#, Ok(leaf("Title", Op::Eq, "a\\b"))),
        (r#"(Title == "ab") x"#, Err(())),
        (r#"(Title == "ab)"#, Err(())),
        (r#"(Title = "ab")"#, Err(())),
        (r#"((Title == "a") and (Title == "b"))"#, Err(())),
        (r#"!(Title == "a")"#, Err(())),
        // AND nested first: the closing parenthesis of an AND group is not followed by StripLeft
        (r#"(((A == "a") AND (B == "b")) AND (C == "c"))"#, Err(())),
        (r#"((C == "c") AND ((A == "a") AND (B == "b")))"#, Ok(Tree::And(vec![leaf("C", Op::Eq, "c"), Tree::And(vec![leaf("A", Op::Eq, "a"), leaf("B", Op::Eq, "b")])]))),
    ];
    for (s, want) in cases {
        let got = parse(s.as_bytes());
        match (&got, &want) {
            (Ok(g), Ok(w)) if g == w => {}
            (Err(_), Err(())) => {}
            _ => return Err(format!("filter self-test: {:?} -> {:?}, expected {:?}", s, got, want)),
        }
    }
    Ok(())
}
