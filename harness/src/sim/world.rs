//! The simulated world of one client session: transport (`SimIo`), the simulated MPD server (the
//! executable sequential model) and the append-only boundary event log. Everything runs on one
//! current-thread tokio runtime with paused (virtual) time.

use std::collections::VecDeque;
use std::io;
use std::pin::Pin;
use std::sync::{Arc, Mutex};
use std::task::{Context, Poll, Waker};
use std::time::Duration;

use tokio::io::{AsyncRead, AsyncWrite, ReadBuf};
use tokio::sync::Notify;
use tokio::time::Instant;

use crate::refmodel::tokenizer::tokenize;
use crate::refmodel::wire::{AError, AFrame, DFrame};
use crate::util::rng::{mix, Rng};

// ---------------------------------------------------------------------------------------------
// Event log

#[derive(Clone, Copy, Debug, PartialEq, Eq, Hash, PartialOrd, Ord)]
pub struct CallId {
    pub caller: usize,
    pub seq: usize,
}

#[derive(Clone, Debug, PartialEq, Eq)]
pub enum CallResult {
    Frames(Vec<DFrame>),
    ErrResponse { error: AError, frames: Vec<DFrame> },
    ErrClosed,
    ErrProtocol(String),
    ErrTyped(String),
    /// typed result rendered by the workload (tokens etc.)
    Typed(Vec<String>),
    Art(Option<(Vec<u8>, Option<String>)>),
    Panicked(String),
}

impl CallResult {
    pub fn short(&self) -> String {
        match self {
            CallResult::Frames(f) => format!("ok({} frames)", f.len()),
            CallResult::ErrResponse { error, frames } => format!("ack(code {} index {}, {} frames)", error.code, error.index, frames.len()),
            CallResult::ErrClosed => "err(connection closed)".into(),
            CallResult::ErrProtocol(k) => format!("err(protocol: {})", k),
            CallResult::ErrTyped(k) => format!("err(typed: {})", k),
            CallResult::Typed(t) => format!("typed({})", t.join(",")),
            CallResult::Art(a) => format!("art({:?})", a.as_ref().map(|(b, m)| (b.len(), m.clone()))),
            CallResult::Panicked(m) => format!("panicked({})", m),
        }
    }
    pub fn is_ok(&self) -> bool {
        matches!(self, CallResult::Frames(_) | CallResult::Typed(_) | CallResult::Art(_))
    }
}

#[derive(Clone, Copy, Debug, PartialEq, Eq)]
pub enum Phase {
    Normal,
    Idle,
}

#[derive(Clone, Copy, Debug, PartialEq, Eq)]
pub enum ReplyKind {
    Greeting,
    /// reply to `idle` (server-initiated or immediate)
    Idle,
    /// reply to `noidle`
    Noidle,
    /// reply to a request (single command or list)
    Request,
    Garbage,
}

#[derive(Clone, Debug)]
pub enum EvKind {
    CallStart { call: CallId, desc: String },
    CallEnd { call: CallId, result: CallResult },
    CallCancelled { call: CallId },
    ClientWrote { off: u64, bytes: Vec<u8> },
    ClientRead { upto: u64 },
    /// the server processed a complete request line (index among all lines it received)
    ServerGot { line_idx: usize, line: Vec<u8>, phase: Phase },
    /// `for_lines`: the request-line indices this output answers (a list block answers several)
    ServerWrote { kind: ReplyKind, start: u64, end: u64, changed: Vec<String>, for_lines: Vec<usize> },
    ServerViolation { line: Vec<u8>, why: String },
    Notify { names: Vec<String>, while_idle: bool },
    EventChange(String),
    EventClosed(String),
    EventEnd,
    Hook(String),
    Fault(String),
    TransportDropped,
    HandlesDropped,
    ServerClosed,
    Note(String),
}

#[derive(Clone, Debug)]
pub struct Ev {
    pub t: u64,
    pub kind: EvKind,
}

impl Ev {
    pub fn render(&self) -> String {
        let t = format!("{:>12.6}ms", self.t as f64 / 1e6);
        let b = |v: &Vec<u8>| {
            let s = String::from_utf8_lossy(&v[..v.len().min(80)]).replace('\n', "\\n");
            if v.len() > 80 {
                format!("{}…({}B)", s, v.len())
            } else {
                s
            }
        };
        match &self.kind {
            EvKind::CallStart { call, desc } => format!("{} c{}#{} call  {}", t, call.caller, call.seq, desc),
            EvKind::CallEnd { call, result } => format!("{} c{}#{} ret   {}", t, call.caller, call.seq, result.short()),
            EvKind::CallCancelled { call } => format!("{} c{}#{} CANCELLED", t, call.caller, call.seq),
            EvKind::ClientWrote { off, bytes } => format!("{} client wrote @{}: {}", t, off, b(bytes)),
            EvKind::ClientRead { upto } => format!("{} client read up to {}", t, upto),
            EvKind::ServerGot { line_idx, line, phase } => format!("{} server got line {} in {:?}: {}", t, line_idx, phase, b(line)),
            EvKind::ServerWrote { kind, start, end, changed, for_lines } => format!("{} server wrote {:?} [{}..{}) changed={:?} for_lines={:?}", t, kind, start, end, changed, for_lines),
            EvKind::ServerViolation { line, why } => format!("{} SERVER SAW PROTOCOL VIOLATION: {} ({})", t, b(line), why),
            EvKind::Notify { names, while_idle } => format!("{} server-side change {:?} (idle: {})", t, names, while_idle),
            EvKind::EventChange(n) => format!("{} event SubsystemChange({})", t, n),
            EvKind::EventClosed(d) => format!("{} event ConnectionClosed({})", t, d),
            EvKind::EventEnd => format!("{} event stream ended", t),
            EvKind::Hook(h) => format!("{} hook {}", t, h),
            EvKind::Fault(f) => format!("{} FAULT {}", t, f),
            EvKind::TransportDropped => format!("{} transport dropped", t),
            EvKind::HandlesDropped => format!("{} all client handles dropped", t),
            EvKind::ServerClosed => format!("{} server closed the connection", t),
            EvKind::Note(n) => format!("{} note {}", t, n),
        }
    }
}

// ---------------------------------------------------------------------------------------------
// Configuration

#[derive(Clone, Debug, PartialEq, Eq)]
pub enum SegPolicy {
    Whole,
    PerLine,
    PerByte,
    /// up to k random cut points
    Random(usize),
}

#[derive(Clone, Debug)]
pub enum Fault {
    None,
    /// end of stream once the client has read `k` bytes (counting the greeting)
    EofAfter(u64),
    /// every read fails once the client has read `k` bytes
    ReadErrAfter(u64),
    /// ONE read fails with `ErrorKind::Interrupted` once the client has read `k` bytes; the stream is intact and
    /// continues afterwards (a transport that surfaces EINTR). Used only in sessions without callers (C04): what a
    /// client makes of a transient error is its own business, but it must not skip part of a reply and go on.
    ReadInterruptedOnceAfter(u64),
    /// splice bytes into the server's output at stream offset `k`
    GarbageAt(u64, Vec<u8>),
    /// malformed bytes WITHOUT a line end in place of the rest of the output at that offset, after which the server
    /// stays connected but never writes again (a wedged peer): the bytes cannot begin any valid line
    GarbageMuteAt(u64, Vec<u8>),
    /// every write fails from the j-th write call on
    WriteErrFrom(usize),
    /// the server closes the connection (after flushing) at the given virtual time
    ServerCloseAt(Duration),
}

#[derive(Clone, Debug)]
pub enum PasswordVerdict {
    Accept,
    Reject(u64),
    /// the ACK follows output the command had already printed / a completed list frame
    RejectAfterOutput(u64),
    RejectAfterListOk(u64),
    Close,
    Garbage,
    CutInsideReply,
}

#[derive(Clone, Debug)]
pub struct ArtStore {
    pub embedded: Option<(Vec<u8>, Option<String>)>,
    pub cover: Option<Vec<u8>>,
    pub limit: usize,
    pub readpicture_supported: bool,
    /// ACK code the embedded / cover command answers with instead (0 = none)
    pub embedded_ack: u64,
    pub cover_ack: u64,
    /// the failing art command prints `size:`/`type:` before its ACK
    pub ack_after_partial_output: bool,
    /// requests at an offset >= .0 (> 0) are answered with ACK code .1: the file vanished / changed while it was loaded
    pub ack_from_offset: Option<(usize, u64)>,
    /// chunk sizes of continuation requests (empty: always `limit`): a server may hand out fewer bytes than its limit,
    /// and the limit may be lowered by another client handle while a picture is being loaded
    pub later_chunks: Vec<usize>,
}

impl ArtStore {
    /// number of bytes the server hands out for a request at `offset` (a function of the offset, so that the checker
    /// can recompute it)
    pub fn chunk_len(&self, offset: usize) -> usize {
        if offset == 0 || self.later_chunks.is_empty() {
            self.limit.max(1)
        } else {
            self.later_chunks[offset % self.later_chunks.len()].max(1).min(self.limit.max(1))
        }
    }
}

#[derive(Clone, Debug)]
pub struct WorldCfg {
    pub seed: u64,
    pub greeting: Vec<u8>,
    pub read_cap: usize,
    pub pending_p: u32,
    pub write_cap: usize,
    /// back-pressure: every write call first stays Pending for this long (virtual time)
    pub write_delay: Duration,
    /// a transport whose shutdown never completes (a TLS stream whose closing handshake is stuck): poll_shutdown
    /// stays Pending for ever. Nothing in the properties lets the client depend on it completing.
    pub shutdown_stalls: bool,
    pub c2s_latency: Vec<Duration>,
    pub reply_delay: Vec<Duration>,
    pub chunk_delay: Vec<Duration>,
    pub seg: Vec<SegPolicy>,
    /// segmentation used for idle/noidle replies (to aim at P1)
    pub idle_seg: Vec<SegPolicy>,
    pub idle_chunk_delay: Vec<Duration>,
    pub pending_as_set: bool,
    pub fault: Fault,
    pub password: Option<(String, PasswordVerdict)>,
    pub art: Option<ArtStore>,
    /// what the art commands answer for particular URIs (overrides `art`): songs differ in what art they have
    pub art_by_uri: Vec<(String, ArtStore)>,
    /// lines the listing commands (playlistinfo, playlistid, currentsong, find, listplaylistinfo, listallinfo) answer with
    pub listing: Option<Vec<(String, String)>>,
}

/// The greeting of a simulated server: half of the worlds announce 0.23.5, the others an old, a new or an
/// oddly shaped version (nothing the client does afterwards may depend on it: every command the harness
/// uses is answered by the simulated server whatever it announced).
pub fn greeting_for(seed: u64) -> Vec<u8> {
    const V: &[&str] = &["0.19.0", "0.20.23", "0.21.0", "0.21.26", "0.16.0", "0.24.2", "1.0.0", "0.9", "0.23~git", "0.22.x", "10.1", "0", "0.15", "0.20", "2"];
    let h = crate::util::rng::mix(&[seed, 0x6772_6565]);
    let v = if h % 2 == 0 { "0.23.5" } else { V[((h >> 8) % V.len() as u64) as usize] };
    format!("OK MPD {}\n", v).into_bytes()
}

impl WorldCfg {
    pub fn plain(seed: u64) -> WorldCfg {
        WorldCfg {
            seed,
            greeting: greeting_for(seed),
            read_cap: usize::MAX,
            pending_p: 0,
            write_cap: usize::MAX,
            write_delay: Duration::ZERO,
            shutdown_stalls: false,
            c2s_latency: vec![Duration::ZERO],
            reply_delay: vec![Duration::ZERO],
            chunk_delay: vec![Duration::ZERO],
            seg: vec![SegPolicy::Whole],
            idle_seg: vec![SegPolicy::Whole],
            idle_chunk_delay: vec![Duration::ZERO],
            pending_as_set: true,
            fault: Fault::None,
            password: None,
            art: None,
            art_by_uri: Vec::new(),
            listing: None,
        }
    }
}

// ---------------------------------------------------------------------------------------------
// The deterministic reply function of the raw workload

pub const SHAPES: usize = 8;

/// Reply to `vreq K N SHAPE [I]`: a pure function of the request id, recomputable by checkers.
pub fn vreq_reply(k: u64, n: u64, i: u64, shape: u64) -> AFrame {
    let mut r = Rng::keyed(&[0x7265_706c, k, n, i, shape]);
    let mut fields = vec![("id".to_string(), format!("{}-{}-{}", k, n, i))];
    let mut binary = None;
    match shape % SHAPES as u64 {
        0 => {}
        1 => {
            for j in 0..3 {
                fields.push((format!("f{}", ["a", "b", "c"][j]), format!("{}", r.next_u64())));
            }
        }
        2 => {
            for j in 0..20 {
                fields.push((["Artist", "Title", "file", "x-y", "OK"][j % 5].to_string(), format!("v{} é {}", j, r.next_u64() % 1000)));
            }
        }
        3 => {
            let n = 4096 + (r.next_u64() % 600) as usize;
            let mut v = String::new();
            while v.len() < n {
                v.push_str("0123456789abcdef");
            }
            fields.push(("big".to_string(), v));
        }
        4 => {
            fields.push(("size".to_string(), "9000".to_string()));
            let mut b = r.bytes(9000);
            for p in (0..b.len()).step_by(257) {
                b[p] = b'\n';
            }
            b[100..103].copy_from_slice(b"OK\n");
            b[5000..5008].copy_from_slice(b"list_OK\n");
            binary = Some((fields.len(), b));
        }
        5 => {
            let opts: [&[u8]; 4] = [b"OK\n", b"list_OK\n", b"ACK [5@0] {} x\n", b"changed: player\nOK\n"];
            binary = Some((1, opts[(r.next_u64() % 4) as usize].to_vec()));
        }
        6 => {
            // looks like an idle reply
            fields.push(("changed".to_string(), "player".to_string()));
            fields.push(("changed".to_string(), "mixer".to_string()));
        }
        _ => {
            // very many DISTINCT field names (61-65 besides `id`, depending on the call's sequence number): whatever a
            // connection remembers about field names is pushed across round limits such as 64
            for j in 0..61 + (n % 5) as usize {
                fields.push((format!("key_{}{}", (b'a' + (j / 26) as u8) as char, (b'a' + (j % 26) as u8) as char), format!("{}", j)));
            }
        }
    }
    AFrame { fields, binary }
}

pub fn vfail_error(k: u64, n: u64, idx: u64, code: u64) -> AError {
    AError { code, index: idx, command: Some("v_fail".to_string()), message: format!("scripted failure {}-{}", k, n) }
}

// ---------------------------------------------------------------------------------------------
// Shared state

struct OutChunk {
    bytes: Vec<u8>,
    release_at: Instant,
}

pub struct Inner {
    pub cfg: WorldCfg,
    t0: Instant,
    pub log: Vec<Ev>,
    rng: Rng,
    // server -> client
    out: VecDeque<OutChunk>,
    /// chunks popped by the deliverer that are waiting for their release time
    in_transit: usize,
    avail: VecDeque<u8>,
    last_release: Instant,
    pub s2c_written: u64,
    pub s2c_delivered: u64,
    read_waker: Option<Waker>,
    pub line_starts: Vec<u64>,
    // client -> server
    c2s: VecDeque<(Vec<u8>, Instant)>,
    pub c2s_written: u64,
    pub write_calls: usize,
    // faults
    garbage_done: bool,
    muted: bool,
    pub fault_fired: bool,
    // transport lifecycle
    pub dropped: bool,
    // server
    pub phase: Phase,
    pub pending: Vec<String>,
    linebuf: Vec<u8>,
    in_list: Option<(usize, Vec<(usize, Vec<u8>)>, bool)>,
    pub lines_seen: usize,
    pub server_closed: bool,
    pub authed: bool,
    pub violations: usize,
    reply_counter: u64,
    status_counter: u64,
    pub requests_executed: usize,
}

#[derive(Clone)]
pub struct World {
    pub inner: Arc<Mutex<Inner>>,
    deliver_notify: Arc<Notify>,
    server_notify: Arc<Notify>,
}

impl Inner {
    fn now(&self) -> u64 {
        Instant::now().duration_since(self.t0).as_nanos() as u64
    }
    pub fn push(&mut self, kind: EvKind) {
        let t = self.now();
        self.log.push(Ev { t, kind });
    }
    fn pick<T: Clone>(&mut self, xs: &[T], salt: u64) -> T {
        let k = mix(&[self.cfg.seed, salt, self.reply_counter]) as usize % xs.len();
        xs[k].clone()
    }
}

impl World {
    pub fn new(cfg: WorldCfg) -> World {
        let t0 = Instant::now();
        let rng = Rng::keyed(&[cfg.seed, 0x776f726c64]);
        let authed = cfg.password.is_none();
        let inner = Inner {
            cfg,
            t0,
            log: Vec::new(),
            rng,
            out: VecDeque::new(),
            in_transit: 0,
            avail: VecDeque::new(),
            last_release: t0,
            s2c_written: 0,
            s2c_delivered: 0,
            read_waker: None,
            line_starts: Vec::new(),
            c2s: VecDeque::new(),
            c2s_written: 0,
            write_calls: 0,
            garbage_done: false,
            muted: false,
            fault_fired: false,
            dropped: false,
            phase: Phase::Normal,
            pending: Vec::new(),
            linebuf: Vec::new(),
            in_list: None,
            lines_seen: 0,
            server_closed: false,
            authed,
            violations: 0,
            reply_counter: 0,
            status_counter: 0,
            requests_executed: 0,
        };
        World { inner: Arc::new(Mutex::new(inner)), deliver_notify: Arc::new(Notify::new()), server_notify: Arc::new(Notify::new()) }
    }

    pub fn io(&self) -> SimIo {
        SimIo { w: self.clone(), write_sleep: None }
    }

    pub fn log_ev(&self, kind: EvKind) {
        self.inner.lock().unwrap().push(kind);
    }

    pub fn now_ns(&self) -> u64 {
        self.inner.lock().unwrap().now()
    }

    /// Queue server output, cut into chunks by the policy, with virtual delays.
    fn emit(&self, g: &mut Inner, kind: ReplyKind, bytes: Vec<u8>, changed: Vec<String>, for_lines: Vec<usize>, line_offsets: &[usize]) {
        if g.muted {
            return;
        }
        g.reply_counter += 1;
        let is_idle_kind = matches!(kind, ReplyKind::Idle | ReplyKind::Noidle);
        let (segs, delays) = if is_idle_kind { (g.cfg.idle_seg.clone(), g.cfg.idle_chunk_delay.clone()) } else { (g.cfg.seg.clone(), g.cfg.chunk_delay.clone()) };
        let seg = g.pick(&segs, 1);
        let chunk_delay = g.pick(&delays, 2);
        let reply_delays = g.cfg.reply_delay.clone();
        let reply_delay = if kind == ReplyKind::Greeting { Duration::ZERO } else { g.pick(&reply_delays, 3) };
        let start = g.s2c_written;
        for lo in line_offsets {
            g.line_starts.push(start + *lo as u64);
        }
        // garbage fault: splice into the stream at the configured offset
        let mut bytes = bytes;
        if let Fault::GarbageAt(k, garbage) = g.cfg.fault.clone() {
            if !g.garbage_done && k >= start && k < start + bytes.len() as u64 {
                let p = (k - start) as usize;
                let tail = bytes.split_off(p);
                bytes.extend_from_slice(&garbage);
                bytes.extend_from_slice(&tail);
                g.garbage_done = true;
                g.fault_fired = true;
                g.push(EvKind::Fault(format!("garbage {:?} spliced at server output offset {}", String::from_utf8_lossy(&garbage), k)));
            }
        }
        if let Fault::GarbageMuteAt(k, garbage) = g.cfg.fault.clone() {
            if !g.garbage_done && k >= start && k < start + bytes.len() as u64 {
                bytes.truncate((k - start) as usize);
                bytes.extend_from_slice(&garbage);
                g.garbage_done = true;
                g.muted = true;
                g.fault_fired = true;
                g.push(EvKind::Fault(format!("malformed bytes {:?} without a line end at server output offset {}, then the server falls silent", String::from_utf8_lossy(&garbage), k)));
            }
        }
        let len = bytes.len();
        let end = start + len as u64;
        g.s2c_written = end;
        g.push(EvKind::ServerWrote { kind, start, end, changed, for_lines });
        // chunking
        let mut cuts: Vec<usize> = match seg {
            SegPolicy::Whole => vec![],
            SegPolicy::PerLine => bytes.iter().enumerate().filter(|(_, &b)| b == b'\n').map(|(i, _)| i + 1).filter(|&c| c < len).collect(),
            SegPolicy::PerByte => (1..len).collect(),
            SegPolicy::Random(k) => {
                let mut v = Vec::new();
                if len >= 2 {
                    let n = 1 + (g.rng.next_u64() as usize % k.max(1));
                    for _ in 0..n {
                        v.push(1 + g.rng.below(len - 1));
                    }
                }
                v
            }
        };
        cuts.sort_unstable();
        cuts.dedup();
        if cuts.len() > 64 && seg != SegPolicy::PerByte {
            cuts.truncate(64);
        }
        let now = Instant::now();
        let mut release = std::cmp::max(g.last_release, now + reply_delay);
        let mut prev = 0usize;
        let mut pieces: Vec<(usize, usize)> = Vec::new();
        for c in cuts {
            pieces.push((prev, c));
            prev = c;
        }
        pieces.push((prev, len));
        for (k, (a, b)) in pieces.into_iter().enumerate() {
            if k > 0 {
                release += chunk_delay;
            }
            g.out.push_back(OutChunk { bytes: bytes[a..b].to_vec(), release_at: release });
        }
        g.last_release = release;
        self.deliver_notify.notify_one();
    }

    /// Server-side subsystem change (from the notification schedule or the driver).
    pub fn change(&self, names: &[String]) {
        let mut g = self.inner.lock().unwrap();
        if g.server_closed {
            return;
        }
        let while_idle = g.phase == Phase::Idle;
        g.push(EvKind::Notify { names: names.to_vec(), while_idle });
        if while_idle {
            let (bytes, offs) = changed_reply(names);
            g.phase = Phase::Normal;
            self.emit(&mut g, ReplyKind::Idle, bytes, names.to_vec(), vec![], &offs);
        } else {
            for n in names {
                if !(g.cfg.pending_as_set && g.pending.contains(n)) {
                    g.pending.push(n.clone());
                }
            }
        }
    }

    /// Everything the server queued has been read by the client.
    pub fn all_output_delivered(&self) -> bool {
        let g = self.inner.lock().unwrap();
        g.out.is_empty() && g.in_transit == 0 && g.avail.is_empty() && g.s2c_delivered == g.s2c_written
    }

    pub fn close_server(&self) {
        let mut g = self.inner.lock().unwrap();
        if !g.server_closed {
            g.server_closed = true;
            g.push(EvKind::ServerClosed);
            if let Some(w) = g.read_waker.take() {
                w.wake();
            }
            self.deliver_notify.notify_one();
        }
    }

    /// The task that makes queued output available to the client at its release time.
    pub async fn run_deliverer(self) {
        loop {
            let next = {
                let mut g = self.inner.lock().unwrap();
                if g.dropped {
                    return;
                }
                let c = g.out.pop_front();
                if c.is_some() {
                    g.in_transit += 1;
                }
                c
            };
            match next {
                None => self.deliver_notify.notified().await,
                Some(chunk) => {
                    tokio::time::sleep_until(chunk.release_at).await;
                    let mut g = self.inner.lock().unwrap();
                    g.in_transit -= 1;
                    g.avail.extend(chunk.bytes);
                    if let Some(w) = g.read_waker.take() {
                        w.wake();
                    }
                }
            }
        }
    }

    /// The server task: greeting, then request lines as they become visible.
    pub async fn run_server(self) {
        {
            let mut g = self.inner.lock().unwrap();
            let greeting = g.cfg.greeting.clone();
            self.emit(&mut g, ReplyKind::Greeting, greeting, vec![], vec![], &[0]);
        }
        loop {
            let next = {
                let mut g = self.inner.lock().unwrap();
                if g.dropped {
                    return;
                }
                g.c2s.pop_front()
            };
            match next {
                None => self.server_notify.notified().await,
                Some((bytes, visible_at)) => {
                    tokio::time::sleep_until(visible_at).await;
                    let mut g = self.inner.lock().unwrap();
                    if g.server_closed {
                        continue;
                    }
                    g.linebuf.extend_from_slice(&bytes);
                    while let Some(lf) = g.linebuf.iter().position(|&b| b == b'\n') {
                        let line: Vec<u8> = g.linebuf.drain(..=lf).take(lf).collect();
                        self.handle_line(&mut g, line);
                        if g.server_closed {
                            break;
                        }
                    }
                }
            }
        }
    }

    fn handle_line(&self, g: &mut Inner, line: Vec<u8>) {
        let idx = g.lines_seen;
        g.lines_seen += 1;
        let phase = g.phase;
        g.push(EvKind::ServerGot { line_idx: idx, line: line.clone(), phase });
        if phase == Phase::Idle {
            if line == b"noidle" {
                let names = std::mem::take(&mut g.pending);
                let (bytes, offs) = changed_reply(&names);
                g.phase = Phase::Normal;
                self.emit(g, ReplyKind::Noidle, bytes, names, vec![idx], &offs);
            } else {
                // MPD: `command "..." during idle` -> the connection is closed
                g.violations += 1;
                g.push(EvKind::ServerViolation { line, why: "anything but noidle while the server waits in idle".into() });
                g.server_closed = true;
                g.push(EvKind::ServerClosed);
                if let Some(w) = g.read_waker.take() {
                    w.wake();
                }
            }
            return;
        }
        // Normal
        if let Some((begin_idx, lines, ok_mode)) = g.in_list.as_mut() {
            if line == b"command_list_end" {
                let (begin_idx, lines, ok_mode) = (*begin_idx, std::mem::take(lines), *ok_mode);
                g.in_list = None;
                let mut out = Vec::new();
                let mut offs = Vec::new();
                let mut for_lines: Vec<usize> = vec![begin_idx];
                for_lines.extend(lines.iter().map(|(i, _)| *i));
                for_lines.push(idx);
                let mut failed = false;
                for (k, (_, l)) in lines.iter().enumerate() {
                    match self.execute(g, l, k as u64) {
                        Ok(frame) => {
                            encode_frame(&frame, &mut out, &mut offs);
                            if ok_mode {
                                offs.push(out.len());
                                out.extend_from_slice(b"list_OK\n");
                            }
                        }
                        Err(f) => {
                            if let Some(p) = &f.partial {
                                encode_frame(p, &mut out, &mut offs);
                            }
                            offs.push(out.len());
                            f.error.encode_into(&mut out);
                            failed = true;
                            break;
                        }
                    }
                }
                if !failed {
                    offs.push(out.len());
                    out.extend_from_slice(b"OK\n");
                }
                self.emit(g, ReplyKind::Request, out, vec![], for_lines, &offs);
            } else {
                lines.push((idx, line));
            }
            return;
        }
        if line == b"command_list_ok_begin" || line == b"command_list_begin" {
            // the opening line is answered together with the block
            g.in_list = Some((idx, vec![], line == b"command_list_ok_begin"));
            return;
        }
        if line == b"noidle" {
            // MPD ignores noidle when not idling; no reply
            return;
        }
        if line == b"idle" || line.starts_with(b"idle ") {
            if !g.authed {
                let mut out = Vec::new();
                AError { code: 4, index: 0, command: Some("idle".into()), message: "you don't have permission for \"idle\"".into() }.encode_into(&mut out);
                self.emit(g, ReplyKind::Request, out, vec![], vec![idx], &[0]);
                return;
            }
            if g.pending.is_empty() {
                g.phase = Phase::Idle;
            } else {
                let names = std::mem::take(&mut g.pending);
                let (bytes, offs) = changed_reply(&names);
                self.emit(g, ReplyKind::Idle, bytes, names, vec![idx], &offs);
            }
            return;
        }
        // password verdicts that are not well-formed replies
        if line.starts_with(b"password") {
            if let Some((_, verdict)) = g.cfg.password.clone() {
                match verdict {
                    PasswordVerdict::Garbage => {
                        self.emit(g, ReplyKind::Garbage, b"!! this is not MPD\n".to_vec(), vec![], vec![idx], &[0]);
                        return;
                    }
                    PasswordVerdict::RejectAfterListOk(code) => {
                        let bytes = format!("list_OK\nACK [{}@1] {{password}} incorrect password\n", code).into_bytes();
                        self.emit(g, ReplyKind::Request, bytes, vec![], vec![idx], &[0, 8]);
                        return;
                    }
                    PasswordVerdict::CutInsideReply => {
                        self.emit(g, ReplyKind::Garbage, b"ACK [3@0] {passw".to_vec(), vec![], vec![idx], &[0]);
                        g.server_closed = true;
                        g.push(EvKind::ServerClosed);
                        return;
                    }
                    _ => {}
                }
            }
        }
        // single command
        let mut out = Vec::new();
        let mut offs = Vec::new();
        match self.execute(g, &line, 0) {
            Ok(frame) => {
                encode_frame(&frame, &mut out, &mut offs);
                offs.push(out.len());
                out.extend_from_slice(b"OK\n");
            }
            Err(f) => {
                if let Some(p) = &f.partial {
                    encode_frame(p, &mut out, &mut offs);
                }
                offs.push(out.len());
                f.error.encode_into(&mut out);
            }
        }
        if g.server_closed {
            return;
        }
        self.emit(g, ReplyKind::Request, out, vec![], vec![idx], &offs);
    }

    /// Execute one request line; `idx` is its index within a command list.
    fn execute(&self, g: &mut Inner, line: &[u8], idx: u64) -> Result<AFrame, Fail> {
        g.requests_executed += 1;
        let (name, args) = match tokenize(line) {
            Ok(x) => x,
            Err(e) => return Err(AError { code: 5, index: idx, command: None, message: e.name().to_string() }.into()),
        };
        let name = String::from_utf8_lossy(&name).to_string();
        let arg = |k: usize| -> String { args.get(k).map(|a| String::from_utf8_lossy(a).to_string()).unwrap_or_default() };
        let num = |k: usize| -> u64 { arg(k).parse().unwrap_or(0) };
        let ack = |code: u64, msg: String| AError { code, index: idx, command: Some(name.clone()), message: msg };
        if name == "password" {
            return match g.cfg.password.clone() {
                None => Ok(AFrame::empty()),
                Some((pw, verdict)) => match verdict {
                    PasswordVerdict::Accept if arg(0) == pw => {
                        g.authed = true;
                        Ok(AFrame::empty())
                    }
                    PasswordVerdict::Accept => Err(ack(3, "incorrect password".into()).into()),
                    PasswordVerdict::Reject(code) | PasswordVerdict::RejectAfterListOk(code) => Err(ack(code, "incorrect password".into()).into()),
                    PasswordVerdict::RejectAfterOutput(code) => Err(Fail { partial: Some(AFrame { fields: vec![("notice".to_string(), "checking".to_string())], binary: None }), error: ack(code, "incorrect password".into()) }),
                    PasswordVerdict::Close => {
                        g.server_closed = true;
                        g.push(EvKind::ServerClosed);
                        if let Some(w) = g.read_waker.take() {
                            w.wake();
                        }
                        Ok(AFrame::empty())
                    }
                    PasswordVerdict::Garbage | PasswordVerdict::CutInsideReply => Ok(AFrame::empty()), // handled by the caller
                },
            };
        }
        if !g.authed {
            return Err(ack(4, format!("you don't have permission for \"{}\"", name)).into());
        }
        match name.as_str() {
            "vreq" => Ok(vreq_reply(num(0), num(1), if args.len() > 3 { num(3) } else { 0 }, num(2))),
            // `v_fail K N CODE [partial]`: fails, optionally after having printed part of its output
            "v_fail" => Err(Fail { partial: if args.len() > 3 { Some(vpartial_output(num(0), num(1))) } else { None }, error: vfail_error(num(0), num(1), idx, num(2)) }),
            "ping" => Ok(AFrame::empty()),
            "close" => {
                g.server_closed = true;
                g.push(EvKind::ServerClosed);
                if let Some(w) = g.read_waker.take() {
                    w.wake();
                }
                Ok(AFrame::empty())
            }
            // ---- typed workloads: replies carry a token of the command's own argument ----------
            "update" | "rescan" => Ok(frame1("updating_db", token(&arg(0)))),
            "addid" => Ok(frame1("Id", token(&arg(0)))),
            "sticker" if arg(0) == "get" => Ok(frame1("sticker", format!("{}={}", arg(3), token(&arg(3))))),
            "count" => Ok(AFrame { fields: vec![("songs".into(), format!("{}", filter_token(&arg(0)))), ("playtime".into(), "0".into())], binary: None }),
            "playlistinfo" | "playlistid" | "currentsong" | "find" | "listplaylistinfo" | "listallinfo" if g.cfg.listing.is_some() => Ok(AFrame { fields: g.cfg.listing.clone().unwrap(), binary: None }),
            "listplaylistinfo" => Ok(frame1("file", arg(0))),
            "status" => {
                g.status_counter += 1;
                let c = g.status_counter;
                Ok(AFrame {
                    fields: vec![("repeat".into(), "0".into()), ("random".into(), "0".into()), ("consume".into(), "0".into()), ("playlist".into(), format!("{}", c)), ("state".into(), "stop".into())],
                    binary: None,
                })
            }
            "stats" => Ok(AFrame {
                fields: ["uptime", "playtime", "artists", "albums", "songs", "db_playtime", "db_update"].iter().map(|k| (k.to_string(), "7".to_string())).collect(),
                binary: None,
            }),
            "currentsong" => Ok(AFrame::empty()),
            "readpicture" | "albumart" => {
                let by_uri = g.cfg.art_by_uri.iter().find(|(u, _)| *u == arg(0)).map(|(_, a)| a.clone());
                let Some(art) = by_uri.or_else(|| g.cfg.art.clone()) else {
                    return Err(ack(5, format!("unknown command \"{}\"", name)).into());
                };
                let embedded = name == "readpicture";
                if embedded && !art.readpicture_supported {
                    return Err(ack(5, "unknown command \"readpicture\"".into()).into());
                }
                let code = if embedded { art.embedded_ack } else { art.cover_ack };
                if code != 0 {
                    let partial = if art.ack_after_partial_output { Some(AFrame { fields: vec![("size".to_string(), "12345".to_string()), ("type".to_string(), "image/png".to_string())], binary: None }) } else { None };
                    return Err(Fail { partial, error: ack(code, "scripted art failure".into()) });
                }
                let offset = num(1) as usize;
                if let Some((from, code)) = art.ack_from_offset {
                    if offset >= from && from > 0 {
                        return Err(ack(code, "scripted art failure on a continuation request".into()).into());
                    }
                }
                let (data, mime) = if embedded {
                    match &art.embedded {
                        Some((d, m)) => (d.clone(), m.clone()),
                        None => return Ok(AFrame::empty()),
                    }
                } else {
                    match &art.cover {
                        Some(d) => (d.clone(), None),
                        // MPD: albumart answers ACK [50@0] "No file exists" when there is no cover
                        None => return Ok(AFrame::empty()),
                    }
                };
                if offset > data.len() {
                    return Err(ack(2, "Bad file offset".into()).into());
                }
                let end = (offset + art.chunk_len(offset)).min(data.len());
                let mut fields = vec![("size".to_string(), format!("{}", data.len()))];
                if let Some(m) = mime {
                    fields.push(("type".to_string(), m));
                }
                Ok(AFrame { binary: Some((fields.len(), data[offset..end].to_vec())), fields })
            }
            _ => Err(ack(5, format!("unknown command \"{}\"", name)).into()),
        }
    }
}

/// A failing command: the ACK, optionally preceded by output the command had already printed.
pub struct Fail {
    pub partial: Option<AFrame>,
    pub error: AError,
}

impl From<AError> for Fail {
    fn from(error: AError) -> Fail {
        Fail { partial: None, error }
    }
}

/// What `v_fail … partial` prints before failing.
pub fn vpartial_output(k: u64, n: u64) -> AFrame {
    AFrame { fields: vec![("id".to_string(), format!("{}-{}-partial", k, n)), ("file".to_string(), "half/listed.mp3".to_string())], binary: None }
}

fn frame1(k: &str, v: impl ToString) -> AFrame {
    AFrame { fields: vec![(k.to_string(), v.to_string())], binary: None }
}

/// numeric token of an argument such as `t17` / `n9` / `p4`: the digits it ends with
pub fn token(s: &str) -> u64 {
    let d: String = s.chars().rev().take_while(|c| c.is_ascii_digit()).collect::<String>().chars().rev().collect();
    d.parse().unwrap_or(0)
}

/// token inside a filter argument `(Artist == "t17")`
fn filter_token(s: &str) -> u64 {
    let digits: String = s.chars().filter(|c| c.is_ascii_digit()).collect();
    digits.parse().unwrap_or(0)
}

fn changed_reply(names: &[String]) -> (Vec<u8>, Vec<usize>) {
    let mut out = Vec::new();
    let mut offs = Vec::new();
    for n in names {
        offs.push(out.len());
        out.extend_from_slice(format!("changed: {}\n", n).as_bytes());
    }
    offs.push(out.len());
    out.extend_from_slice(b"OK\n");
    (out, offs)
}

fn encode_frame(f: &AFrame, out: &mut Vec<u8>, offs: &mut Vec<usize>) {
    let bpos = f.binary.as_ref().map(|(p, _)| (*p).min(f.fields.len()));
    let put_bin = |out: &mut Vec<u8>, offs: &mut Vec<usize>| {
        let b = &f.binary.as_ref().unwrap().1;
        offs.push(out.len());
        out.extend_from_slice(format!("binary: {}\n", b.len()).as_bytes());
        out.extend_from_slice(b);
        out.push(b'\n');
    };
    for (i, (k, v)) in f.fields.iter().enumerate() {
        if bpos == Some(i) {
            put_bin(out, offs);
        }
        offs.push(out.len());
        out.extend_from_slice(format!("{}: {}\n", k, v).as_bytes());
    }
    if bpos == Some(f.fields.len()) {
        put_bin(out, offs);
    }
}

// ---------------------------------------------------------------------------------------------
// Transport

pub struct SimIo {
    w: World,
    /// armed while a write is being held back (back-pressure)
    write_sleep: Option<Pin<Box<tokio::time::Sleep>>>,
}

impl AsyncRead for SimIo {
    fn poll_read(self: Pin<&mut Self>, cx: &mut Context<'_>, buf: &mut ReadBuf<'_>) -> Poll<io::Result<()>> {
        let mut g = self.w.inner.lock().unwrap();
        // faults on the read side
        match g.cfg.fault.clone() {
            Fault::ReadErrAfter(k) if g.s2c_delivered >= k => {
                // the kind of the error varies with the position: nothing may depend on it (a TLS layer reports a
                // peer that went away without close_notify as UnexpectedEof, a socket timeout as TimedOut, ...)
                const KINDS: [io::ErrorKind; 6] = [io::ErrorKind::ConnectionReset, io::ErrorKind::UnexpectedEof, io::ErrorKind::TimedOut, io::ErrorKind::ConnectionAborted, io::ErrorKind::Other, io::ErrorKind::BrokenPipe];
                let kind = KINDS[(k % 6) as usize];
                if !g.fault_fired {
                    g.fault_fired = true;
                    g.push(EvKind::Fault(format!("reads fail ({:?}) after {} bytes", kind, k)));
                }
                return Poll::Ready(Err(io::Error::new(kind, "injected read error")));
            }
            Fault::EofAfter(k) if g.s2c_delivered >= k => {
                if !g.fault_fired {
                    g.fault_fired = true;
                    g.push(EvKind::Fault(format!("end of stream after {} bytes", k)));
                }
                return Poll::Ready(Ok(()));
            }
            Fault::ReadInterruptedOnceAfter(k) if g.s2c_delivered >= k && !g.fault_fired => {
                g.fault_fired = true;
                g.push(EvKind::Fault(format!("one read fails with Interrupted after {} bytes", k)));
                return Poll::Ready(Err(io::Error::new(io::ErrorKind::Interrupted, "injected transient read error")));
            }
            _ => {}
        }
        let pp = g.cfg.pending_p;
        if pp > 0 && g.rng.chance(pp, 256) {
            cx.waker().wake_by_ref();
            return Poll::Pending;
        }
        let mut limit = buf.remaining().min(g.cfg.read_cap).min(g.avail.len());
        match g.cfg.fault {
            Fault::EofAfter(k) | Fault::ReadErrAfter(k) => {
                limit = limit.min((k - g.s2c_delivered) as usize);
            }
            Fault::ReadInterruptedOnceAfter(k) if !g.fault_fired => {
                limit = limit.min((k - g.s2c_delivered) as usize);
            }
            _ => {}
        }
        if limit == 0 {
            if g.server_closed && g.avail.is_empty() && g.out.is_empty() && g.in_transit == 0 {
                return Poll::Ready(Ok(())); // EOF after a server-side close
            }
            g.read_waker = Some(cx.waker().clone());
            return Poll::Pending;
        }
        let data: Vec<u8> = g.avail.drain(..limit).collect();
        buf.put_slice(&data);
        g.s2c_delivered += limit as u64;
        let upto = g.s2c_delivered;
        g.push(EvKind::ClientRead { upto });
        Poll::Ready(Ok(()))
    }
}

impl AsyncWrite for SimIo {
    fn poll_write(mut self: Pin<&mut Self>, cx: &mut Context<'_>, buf: &[u8]) -> Poll<io::Result<usize>> {
        // back-pressure: the peer is slow to read; the write completes only after the delay
        let delay = self.w.inner.lock().unwrap().cfg.write_delay;
        if delay > Duration::ZERO {
            if self.write_sleep.is_none() {
                self.write_sleep = Some(Box::pin(tokio::time::sleep(delay)));
            }
            let ready = {
                use std::future::Future;
                self.write_sleep.as_mut().unwrap().as_mut().poll(cx).is_ready()
            };
            if !ready {
                return Poll::Pending;
            }
            self.write_sleep = None;
        }
        let mut g = self.w.inner.lock().unwrap();
        let call = g.write_calls;
        g.write_calls += 1;
        if let Fault::WriteErrFrom(j) = g.cfg.fault {
            if call >= j {
                if !g.fault_fired {
                    g.fault_fired = true;
                    g.push(EvKind::Fault(format!("writes fail from write call {}", j)));
                }
                const WKINDS: [io::ErrorKind; 4] = [io::ErrorKind::BrokenPipe, io::ErrorKind::ConnectionReset, io::ErrorKind::WriteZero, io::ErrorKind::TimedOut];
                let kind = WKINDS[g.write_calls % 4];
                return Poll::Ready(Err(io::Error::new(kind, "injected write error")));
            }
        }
        let n = buf.len().min(g.cfg.write_cap.max(1));
        let off = g.c2s_written;
        g.c2s_written += n as u64;
        g.push(EvKind::ClientWrote { off, bytes: buf[..n].to_vec() });
        let lats = g.cfg.c2s_latency.clone();
        let k = mix(&[g.cfg.seed, 9, off]) as usize % lats.len();
        let mut visible = Instant::now() + lats[k];
        // FIFO: never overtake earlier bytes
        if let Some((_, last)) = g.c2s.back() {
            if *last > visible {
                visible = *last;
            }
        }
        g.c2s.push_back((buf[..n].to_vec(), visible));
        self.w.server_notify.notify_one();
        Poll::Ready(Ok(n))
    }
    fn poll_flush(self: Pin<&mut Self>, _cx: &mut Context<'_>) -> Poll<io::Result<()>> {
        Poll::Ready(Ok(()))
    }
    fn poll_shutdown(self: Pin<&mut Self>, _cx: &mut Context<'_>) -> Poll<io::Result<()>> {
        let mut g = self.w.inner.lock().unwrap();
        if g.cfg.shutdown_stalls {
            g.push(EvKind::Note("poll_shutdown called on a transport whose shutdown never completes".into()));
            return Poll::Pending;
        }
        Poll::Ready(Ok(()))
    }
}

impl Drop for SimIo {
    fn drop(&mut self) {
        let mut g = self.w.inner.lock().unwrap();
        g.dropped = true;
        g.push(EvKind::TransportDropped);
        self.w.deliver_notify.notify_one();
        self.w.server_notify.notify_one();
    }
}
