//! The simulated world: dictated-read transports, the simulated MPD server, the session engine.
pub mod capture;
pub mod wirerun;
pub mod world;
pub mod session;
