//! The simulated world: dictated-read transports, the simulated MPD server, the session engine.
pub mod analysis;
pub mod capture;
pub mod listing;
pub mod typedlists;
pub mod wirerun;
pub mod world;
pub mod scenario;
pub mod session;
