//! Canonical text rendering of decoded songs, so that typed listing results can travel through the
//! session log (`CallResult::Typed`) and be compared with the rendering of the abstract listing.

use mpd_client::responses::{Song, SongInQueue};

fn tag_name(t: &mpd_client::tag::Tag) -> String {
    use mpd_protocol::command::Argument;
    let mut b = bytes::BytesMut::new();
    t.render(&mut b);
    String::from_utf8_lossy(&b).to_string()
}

pub fn render_parts(url: &str, duration_ms: Option<u64>, format: Option<&str>, last_modified: Option<&str>, tags: &mut Vec<(String, Vec<String>)>) -> String {
    tags.sort();
    let t: Vec<String> = tags.iter().map(|(k, v)| format!("{}={}", k, v.join("\u{1f}"))).collect();
    format!("url={}|dur={:?}|fmt={:?}|lm={:?}|{}", url, duration_ms, format, last_modified, t.join("\u{1e}"))
}

pub fn render_song(s: &Song) -> String {
    let mut tags: Vec<(String, Vec<String>)> = s.tags.iter().map(|(t, v)| (tag_name(t), v.clone())).collect();
    render_parts(&s.url, s.duration.map(|d| (d.as_secs_f64() * 1000.0).round() as u64), s.format.as_deref(), s.last_modified.as_ref().map(|t| t.raw()), &mut tags)
}

pub fn render_queue_song(s: &SongInQueue) -> String {
    let range = s.range.map(|r| ((r.from.as_secs_f64() * 1000.0).round() as u64, r.to.map(|t| (t.as_secs_f64() * 1000.0).round() as u64)));
    format!("pos={}|id={}|prio={}|range={:?}|{}", s.position.0, s.id.0, s.priority, range, render_song(&s.song))
}
