//! The session engine: runs the real `mpd_client::Client` against the simulated world on a
//! current-thread runtime with paused time and a seeded `select!` PRNG; records the boundary log.

use std::future::Future;
use std::pin::Pin;
use std::task::Poll;
use std::time::Duration;

use mpd_client::client::{Client, CommandError, ConnectWithPasswordError, ConnectionEvent, ConnectionEvents};
use mpd_client::commands as c;
use mpd_protocol::command::{Command as RawCommand, CommandList as RawCommandList};
use mpd_protocol::MpdProtocolError;

use super::typedlists;
use super::wirerun::frame_to_d;
use super::world::{CallId, CallResult, Ev, EvKind, Fault, Phase, World, WorldCfg};
use crate::refmodel::wire::AError;
use crate::util::panics;

#[derive(Clone, Debug)]
pub enum Req {
    Raw { shape: u64 },
    /// `n` commands, optionally failing at (index, code)
    RawList { n: usize, fail_at: Option<(usize, u64)>, shape: u64 },
    TypedTuple { arity: usize, rot: usize, base: u64 },
    TypedVec { n: usize, base: u64 },
    TypedStatus,
    TypedUpdate { token: u64 },
    /// one of the six listing commands (0 Queue, 1 QueueRange, 2 CurrentSong, 3 Find, 4 GetPlaylist, 5 ListAllIn)
    TypedListing { which: usize },
    AlbumArt { uri: String },
}

#[derive(Clone, Debug)]
pub enum Step {
    Think(Duration),
    Do(Req),
    /// futures created and first polled in order, then awaited together
    Pipelined(Vec<Req>),
    /// the call's future is dropped after the given virtual time
    CancelAfter(Duration, Req),
}

#[derive(Clone, Debug)]
pub enum ConnectKind {
    Plain,
    Password(String),
    PasswordOpt(Option<String>),
}

#[derive(Clone, Debug)]
pub struct Scenario {
    pub name: String,
    pub world: WorldCfg,
    pub rt_seed: u64,
    pub callers: Vec<(Duration, Vec<Step>)>,
    pub notifications: Vec<(Duration, Vec<String>)>,
    pub connect: ConnectKind,
    /// abort all callers and drop every client handle at this virtual time
    pub drop_handles_at: Option<Duration>,
    /// fault-free epilogue: quiet period, idle check, probe notification, handle drop
    pub epilogue: bool,
    /// after a fault: issue one more request, check the closed flag
    pub post_fault_probe: bool,
    /// keep the events receiver (false: drop it right after connecting)
    pub keep_events: bool,
    /// the application keeps the events receiver but does not poll it until the very end of the session
    /// (a busy application); everything reported in between must still be there then
    pub events_lazy: bool,
    /// run on a multi-thread runtime in real time (true parallel enqueueing); hang limit 30 s wall clock
    pub realtime: bool,
}

impl Scenario {
    pub fn new(name: &str, seed: u64) -> Scenario {
        Scenario {
            name: name.to_string(),
            world: WorldCfg::plain(seed),
            rt_seed: seed,
            callers: Vec::new(),
            notifications: Vec::new(),
            connect: ConnectKind::Plain,
            drop_handles_at: None,
            epilogue: true,
            post_fault_probe: false,
            keep_events: true,
            events_lazy: false,
            realtime: false,
        }
    }
}

#[derive(Clone, Debug, Default)]
pub struct Outcome {
    pub log: Vec<Ev>,
    /// Ok(version) or Err(kind)
    pub connect: Option<Result<String, String>>,
    pub hung: Vec<String>,
    pub panics: Vec<String>,
    pub d: Duration,
    pub closed_flag_at_end: Option<bool>,
    pub phase_after_quiet: Option<Phase>,
    pub epilogue_probe_delivered: Option<bool>,
    pub transport_dropped: bool,
    pub events_ended: bool,
    pub server_violations: usize,
    pub s2c_len: u64,
    pub write_calls: usize,
    pub line_starts: Vec<u64>,
    pub greeting_len: u64,
    pub pending_at_end: Vec<String>,
    pub fault_fired: bool,
    /// the post-fault probe (later request + closed flag) was executed
    pub probe_ran: bool,
}

impl Outcome {
    pub fn render_log(&self, max: usize) -> Vec<String> {
        let n = self.log.len();
        if n <= max {
            self.log.iter().map(|e| e.render()).collect()
        } else {
            let mut v: Vec<String> = self.log[..max / 2].iter().map(|e| e.render()).collect();
            v.push(format!("… {} events omitted …", n - max));
            v.extend(self.log[n - max / 2..].iter().map(|e| e.render()));
            v
        }
    }
}

pub const FAR: Duration = Duration::from_secs(3600);

impl Scenario {
    /// the deadline after which something still pending counts as hung
    pub fn far(&self) -> Duration {
        if self.realtime {
            Duration::from_secs(30)
        } else {
            FAR
        }
    }
}

/// What an application does with an error it is handed: print it (Display and Debug) and follow its source chain.
/// Nothing is checked except that this returns.
pub fn walk_error(e: &(dyn std::error::Error + 'static)) {
    let _ = format!("{} {:?} {:#?}", e, e, e);
    let mut src = e.source();
    let mut depth = 0;
    while let Some(s) = src {
        let _ = format!("{} {:?}", s, s);
        src = s.source();
        depth += 1;
        if depth > 16 {
            break;
        }
    }
}

fn proto_kind(e: &MpdProtocolError) -> String {
    match e {
        MpdProtocolError::InvalidMessage => "InvalidMessage".to_string(),
        MpdProtocolError::Io(e) => format!("Io({:?})", e.kind()),
    }
}

pub fn cmd_err(e: CommandError) -> CallResult {
    walk_error(&e);
    match e {
        CommandError::ConnectionClosed => CallResult::ErrClosed,
        CommandError::Protocol(p) => CallResult::ErrProtocol(proto_kind(&p)),
        CommandError::ErrorResponse { error, succesful_frames } => CallResult::ErrResponse {
            error: AError { code: error.code, index: error.command_index, command: error.current_command.as_ref().map(|s| s.to_string()), message: error.message.to_string() },
            frames: succesful_frames.iter().map(frame_to_d).collect(),
        },
        CommandError::InvalidTypedResponse(t) => CallResult::ErrTyped(format!("{}", t)),
    }
}

pub fn describe(call: CallId, req: &Req) -> String {
    match req {
        Req::Raw { shape } => format!("raw vreq {} {} {}", call.caller, call.seq, shape),
        Req::RawList { n, fail_at, shape } => format!("rawlist n={} fail_at={:?} shape={}", n, fail_at, shape),
        other => format!("{:?}", other),
    }
}

pub fn raw_lines(call: CallId, req: &Req) -> Vec<RawCommand> {
    match req {
        Req::Raw { shape } => vec![RawCommand::new("vreq").argument(call.caller as u64).argument(call.seq as u64).argument(*shape)],
        Req::RawList { n, fail_at, shape } => (0..*n)
            .map(|i| match fail_at {
                // codes >= 1000: the command prints part of its output before failing with code - 1000
                Some((f, code)) if *f == i && *code >= 1000 => RawCommand::new("v_fail").argument(call.caller as u64).argument(call.seq as u64).argument(*code - 1000).argument("partial"),
                Some((f, code)) if *f == i => RawCommand::new("v_fail").argument(call.caller as u64).argument(call.seq as u64).argument(*code),
                _ => RawCommand::new("vreq").argument(call.caller as u64).argument(call.seq as u64).argument(*shape + i as u64).argument(i as u64),
            })
            .collect(),
        _ => vec![],
    }
}

async fn exec(client: Client, call: CallId, req: Req) -> CallResult {
    match &req {
        Req::Raw { .. } => {
            let cmd = raw_lines(call, &req).pop().unwrap();
            match client.raw_command(cmd).await {
                Ok(f) => CallResult::Frames(vec![frame_to_d(&f)]),
                Err(e) => cmd_err(e),
            }
        }
        Req::RawList { .. } => {
            let mut cmds = raw_lines(call, &req).into_iter();
            let mut list = RawCommandList::new(cmds.next().unwrap());
            // exercise add / command / extend
            if let Some(second) = cmds.next() {
                list = list.command(second);
            }
            if let Some(third) = cmds.next() {
                list.add(third);
            }
            list.extend(cmds);
            match client.raw_command_list(list).await {
                Ok(fs) => CallResult::Frames(fs.iter().map(frame_to_d).collect()),
                Err(e) => cmd_err(e),
            }
        }
        Req::TypedTuple { arity, rot, base } => {
            let t = typedlists::toks(*base, *arity);
            match typedlists::run_tuple(&client, *arity, *rot, &t).await {
                Ok(v) => CallResult::Typed(v),
                Err(e) => cmd_err(e),
            }
        }
        Req::TypedVec { n, base } => {
            let t = typedlists::toks(*base, *n);
            let list: Vec<c::Update<'_>> = t.iter().map(|t| c::Update::new().uri(&t.t)).collect();
            match client.command_list(list).await {
                Ok(v) => CallResult::Typed(v.iter().map(|x| format!("update:{}", x)).collect()),
                Err(e) => cmd_err(e),
            }
        }
        Req::TypedStatus => match client.command(c::Status).await {
            Ok(s) => CallResult::Typed(vec![format!("status:{}", s.playlist_version)]),
            Err(e) => cmd_err(e),
        },
        Req::TypedUpdate { token } => {
            let uri = format!("t{}", token);
            match client.command(c::Update::new().uri(&uri)).await {
                Ok(v) => CallResult::Typed(vec![format!("update:{}", v)]),
                Err(e) => cmd_err(e),
            }
        }
        Req::TypedListing { which } => {
            use super::listing::{render_queue_song, render_song};
            use mpd_client::filter::Filter;
            use mpd_client::tag::Tag;
            let r = match which {
                0 => client.command(c::Queue).await.map(|v| v.iter().map(render_queue_song).collect::<Vec<_>>()),
                1 => client.command(c::Queue::range(mpd_client::commands::SongPosition(0)..)).await.map(|v| v.iter().map(render_queue_song).collect()),
                2 => client.command(c::CurrentSong).await.map(|v| v.iter().map(render_queue_song).collect()),
                3 => client.command(c::Find::new(Filter::tag(Tag::Artist, "x"))).await.map(|v| v.iter().map(render_song).collect()),
                4 => client.command(c::GetPlaylist("p")).await.map(|v| v.iter().map(render_song).collect()),
                _ => client.command(c::ListAllIn::root()).await.map(|v| v.iter().map(render_song).collect()),
            };
            match r {
                Ok(v) => CallResult::Typed(v),
                Err(e) => cmd_err(e),
            }
        }
        Req::AlbumArt { uri } => match client.album_art(uri).await {
            Ok(v) => CallResult::Art(v.map(|(b, m)| (b.to_vec(), m))),
            Err(e) => cmd_err(e),
        },
    }
}

async fn run_caller(world: World, client: Client, k: usize, start: Duration, script: Vec<Step>) {
    tokio::time::sleep(start).await;
    let mut seq = 0usize;
    for step in script {
        match step {
            Step::Think(d) => tokio::time::sleep(d).await,
            Step::Do(req) => {
                let call = CallId { caller: k, seq };
                seq += 1;
                world.log_ev(EvKind::CallStart { call, desc: describe(call, &req) });
                let result = exec(client.clone(), call, req).await;
                world.log_ev(EvKind::CallEnd { call, result });
            }
            Step::CancelAfter(d, req) => {
                let call = CallId { caller: k, seq };
                seq += 1;
                world.log_ev(EvKind::CallStart { call, desc: format!("{} (cancel after {:?})", describe(call, &req), d) });
                match tokio::time::timeout(d, exec(client.clone(), call, req)).await {
                    Ok(result) => world.log_ev(EvKind::CallEnd { call, result }),
                    Err(_) => world.log_ev(EvKind::CallCancelled { call }),
                }
            }
            Step::Pipelined(reqs) => {
                let mut futs: Vec<(CallId, Option<Pin<Box<dyn Future<Output = CallResult> + Send>>>)> = Vec::new();
                for req in reqs {
                    let call = CallId { caller: k, seq };
                    seq += 1;
                    world.log_ev(EvKind::CallStart { call, desc: format!("{} (pipelined)", describe(call, &req)) });
                    futs.push((call, Some(Box::pin(exec(client.clone(), call, req)))));
                }
                let w = world.clone();
                std::future::poll_fn(move |cx| {
                    let mut all = true;
                    for (call, slot) in futs.iter_mut() {
                        if let Some(f) = slot {
                            match f.as_mut().poll(cx) {
                                Poll::Ready(result) => {
                                    w.log_ev(EvKind::CallEnd { call: *call, result });
                                    *slot = None;
                                }
                                Poll::Pending => all = false,
                            }
                        }
                    }
                    if all {
                        Poll::Ready(())
                    } else {
                        Poll::Pending
                    }
                })
                .await;
            }
        }
    }
}

async fn collect_events(world: World, mut events: ConnectionEvents, gate: Option<std::sync::Arc<tokio::sync::Notify>>) {
    if let Some(g) = gate {
        g.notified().await;
        world.log_ev(EvKind::Note("the application starts polling its events receiver".into()));
    }
    loop {
        match events.next().await {
            Some(ConnectionEvent::SubsystemChange(s)) => world.log_ev(EvKind::EventChange(s.as_str().to_string())),
            Some(ConnectionEvent::ConnectionClosed(e)) => {
                let d = match &e {
                    mpd_client::client::ConnectionError::Protocol(p) => format!("Protocol({})", proto_kind(p)),
                    mpd_client::client::ConnectionError::InvalidResponse => "InvalidResponse".to_string(),
                };
                walk_error(&e);
                world.log_ev(EvKind::EventClosed(d));
            }
            None => {
                world.log_ev(EvKind::EventEnd);
                return;
            }
        }
    }
}

fn has_event(world: &World, f: impl Fn(&EvKind) -> bool) -> bool {
    world.inner.lock().unwrap().log.iter().any(|e| f(&e.kind))
}

async fn wait_for(world: &World, limit: Duration, f: impl Fn(&EvKind) -> bool) -> bool {
    let start = tokio::time::Instant::now();
    let deadline = start + limit;
    loop {
        if has_event(world, &f) {
            return true;
        }
        let now = tokio::time::Instant::now();
        if now >= deadline {
            return false;
        }
        // progressive polling: fine-grained at first, coarse for very slow (virtual-time) sessions
        let waited = now - start;
        let step = if waited < Duration::from_secs(1) {
            Duration::from_millis(5)
        } else if waited < Duration::from_secs(60) {
            Duration::from_millis(200)
        } else {
            Duration::from_secs(20)
        };
        tokio::time::sleep(step).await;
    }
}

async fn session_main(sc: Scenario, d: Duration) -> Outcome {
    let far = sc.far();
    let mut out = Outcome { d, ..Default::default() };
    let world = World::new(sc.world.clone());
    out.greeting_len = sc.world.greeting.len() as u64;
    {
        let w = world.clone();
        mpd_client::verif_hooks::set_sink(Some(Box::new(move |e| w.log_ev(EvKind::Hook(format!("{:?}", e))))));
    }
    let server = tokio::spawn(world.clone().run_server());
    let deliverer = tokio::spawn(world.clone().run_deliverer());
    // notification schedule
    let mut notifier = {
        let w = world.clone();
        let sched = sc.notifications.clone();
        tokio::spawn(async move {
            let t0 = tokio::time::Instant::now();
            for (t, names) in sched {
                tokio::time::sleep_until(t0 + t).await;
                w.change(&names);
            }
        })
    };
    if let Fault::ServerCloseAt(t) = sc.world.fault.clone() {
        let w = world.clone();
        tokio::spawn(async move {
            tokio::time::sleep(t).await;
            w.log_ev(EvKind::Fault(format!("server closes the connection at {:?}", t)));
            w.inner.lock().unwrap().fault_fired = true;
            w.close_server();
        });
    }

    // connect
    let io = world.io();
    let connected = tokio::time::timeout(far, async {
        match &sc.connect {
            ConnectKind::Plain => Client::connect(io).await.map_err(|e| {
                walk_error(&e);
                format!("Protocol({})", proto_kind(&e))
            }),
            ConnectKind::Password(p) => Client::connect_with_password(io, p).await.map_err(|e| {
                walk_error(&e);
                e
            }).map_err(|e| match e {
                ConnectWithPasswordError::IncorrectPassword => "IncorrectPassword".to_string(),
                ConnectWithPasswordError::ProtocolError(e) => format!("Protocol({})", proto_kind(&e)),
            }),
            ConnectKind::PasswordOpt(p) => Client::connect_with_password_opt(io, p.as_deref()).await.map_err(|e| {
                walk_error(&e);
                e
            }).map_err(|e| match e {
                ConnectWithPasswordError::IncorrectPassword => "IncorrectPassword".to_string(),
                ConnectWithPasswordError::ProtocolError(e) => format!("Protocol({})", proto_kind(&e)),
            }),
        }
    })
    .await;
    let (client, events) = match connected {
        Err(_) => {
            out.hung.push("connect".to_string());
            out.connect = Some(Err("hang".to_string()));
            finish(&world, &mut out, server, deliverer, notifier).await;
            return out;
        }
        Ok(Err(e)) => {
            out.connect = Some(Err(e));
            // give in-flight writes time to reach the server, then stop
            tokio::time::sleep(Duration::from_secs(2)).await;
            finish(&world, &mut out, server, deliverer, notifier).await;
            return out;
        }
        Ok(Ok((client, events))) => {
            out.connect = Some(Ok(client.protocol_version().to_string()));
            let _ = format!("{:?} {:#?}", client, client);
            (client, events)
        }
    };
    let gate = if sc.events_lazy { Some(std::sync::Arc::new(tokio::sync::Notify::new())) } else { None };
    let collector = if sc.keep_events {
        Some(tokio::spawn(collect_events(world.clone(), events, gate.clone())))
    } else {
        // the application may drop the receiver if it does not care about events
        drop(events);
        None
    };

    // callers
    let mut handles = Vec::new();
    let mut aborts = Vec::new();
    for (k, (start, script)) in sc.callers.iter().enumerate() {
        let h = tokio::spawn(run_caller(world.clone(), client.clone(), k, *start, script.clone()));
        aborts.push(h.abort_handle());
        handles.push((k, h));
    }
    let mut client = Some(client);
    let join_all = async {
        let mut hung = Vec::new();
        let mut pan = Vec::new();
        for (k, h) in handles {
            match tokio::time::timeout(far, h).await {
                Err(_) => hung.push(format!("caller {}", k)),
                Ok(Err(e)) if e.is_panic() => pan.push(format!("caller {} panicked: {}", k, panics::take_last().unwrap_or_default())),
                Ok(_) => {}
            }
        }
        (hung, pan)
    };
    let mut dropped_by_plan = false;
    match sc.drop_handles_at {
        None => {
            let (h, p) = join_all.await;
            out.hung.extend(h);
            out.panics.extend(p);
        }
        Some(t) => {
            tokio::pin!(join_all);
            tokio::select! {
                biased;
                (h, p) = &mut join_all => {
                    out.hung.extend(h);
                    out.panics.extend(p);
                }
                _ = tokio::time::sleep(t) => {
                    for a in &aborts {
                        a.abort();
                    }
                    client = None;
                    world.log_ev(EvKind::Fault(format!("all client handles dropped at {:?}", t)));
                    world.inner.lock().unwrap().fault_fired = true;
                    world.log_ev(EvKind::HandlesDropped);
                    dropped_by_plan = true;
                    // aborted tasks finish at their next poll
                    let _ = tokio::time::timeout(Duration::from_secs(5), &mut join_all).await;
                }
            }
        }
    }
    // hung callers keep their client clones alive; abort them so that the rest of the protocol can be observed
    if !out.hung.is_empty() {
        for a in &aborts {
            a.abort();
        }
        tokio::time::sleep(Duration::from_millis(1)).await;
    }

    if sc.epilogue && out.hung.is_empty() && !dropped_by_plan {
        // wait for quiescence (notification schedule finished, all server output delivered), then a
        // quiet period: the client must have re-idled
        let _ = tokio::time::timeout(far, &mut notifier).await;
        for _ in 0..10_000 {
            // a quiet period counts only if nothing was in transit at its start and nothing happened during it
            let before = (world.all_output_delivered(), world.inner.lock().unwrap().log.len());
            tokio::time::sleep(out.d * 4 + Duration::from_secs(1)).await;
            let after = (world.all_output_delivered(), world.inner.lock().unwrap().log.len());
            if before.0 && after.0 && before.1 == after.1 {
                break;
            }
        }
        out.phase_after_quiet = Some(world.inner.lock().unwrap().phase);
        // end-to-end probe: notifications keep flowing
        world.change(&["epilogue_probe".to_string()]);
        if sc.keep_events && !sc.events_lazy {
            out.epilogue_probe_delivered = Some(wait_for(&world, far, |e| matches!(e, EvKind::EventChange(n) if n == "epilogue_probe")).await);
        }
        // let the client re-idle after the probe
        tokio::time::sleep(Duration::from_secs(1)).await;
    }
    if !sc.epilogue && out.hung.is_empty() && !dropped_by_plan && !sc.notifications.is_empty() && !sc.realtime {
        // the notification schedule may outlast the callers: let it finish and its replies be delivered, so that
        // a base run shows the whole script (the fault positions of C08 are enumerated over what the base run saw)
        let _ = tokio::time::timeout(far, &mut notifier).await;
        for _ in 0..50 {
            let before = (world.all_output_delivered(), world.inner.lock().unwrap().log.len());
            tokio::time::sleep(out.d * 2 + Duration::from_millis(500)).await;
            let after = (world.all_output_delivered(), world.inner.lock().unwrap().log.len());
            if before.0 && after.0 && before.1 == after.1 {
                break;
            }
        }
    }
    let mut fired = false;
    if sc.post_fault_probe && !dropped_by_plan {
        // wait until the planned fault has happened (if it ever does)
        // (progressive polling: sessions with per-byte delays can run for virtual minutes)
        let t0 = tokio::time::Instant::now();
        loop {
            if world.inner.lock().unwrap().fault_fired {
                fired = true;
                break;
            }
            let waited = tokio::time::Instant::now() - t0;
            if waited >= far {
                break;
            }
            tokio::time::sleep(if waited < Duration::from_secs(30) { Duration::from_millis(10) } else { Duration::from_secs(5) }).await;
        }
    }
    if sc.post_fault_probe && !dropped_by_plan && fired {
        out.probe_ran = true;
        tokio::time::sleep(out.d * 4 + Duration::from_secs(1)).await;
        if let Some(cl) = client.as_ref() {
            out.closed_flag_at_end = Some(cl.is_connection_closed());
            // a later request must resolve as well
            let call = CallId { caller: 99, seq: 0 };
            let req = Req::Raw { shape: 1 };
            world.log_ev(EvKind::CallStart { call, desc: "post-closure probe request".into() });
            match tokio::time::timeout(far, exec(cl.clone(), call, req)).await {
                Ok(result) => world.log_ev(EvKind::CallEnd { call, result }),
                Err(_) => out.hung.push("post-closure probe request".to_string()),
            }
            // quiescence: the loop may still wait out its re-idle window before it notices the failure
            tokio::time::sleep(out.d * 4 + Duration::from_secs(1)).await;
            out.closed_flag_at_end = Some(cl.is_connection_closed());
        }
    }
    // drop every handle
    if client.is_some() {
        drop(client.take());
        world.log_ev(EvKind::HandlesDropped);
    }
    if let Some(g) = &gate {
        g.notify_one();
    }
    out.transport_dropped = wait_for(&world, far, |e| matches!(e, EvKind::TransportDropped)).await;
    if let Some(col) = collector {
        match tokio::time::timeout(far, col).await {
            Ok(_) => out.events_ended = true,
            Err(_) => out.events_ended = false,
        }
    }
    finish(&world, &mut out, server, deliverer, notifier).await;
    out
}

async fn finish(world: &World, out: &mut Outcome, server: tokio::task::JoinHandle<()>, deliverer: tokio::task::JoinHandle<()>, notifier: tokio::task::JoinHandle<()>) {
    server.abort();
    deliverer.abort();
    notifier.abort();
    mpd_client::verif_hooks::set_sink(None);
    if let Some(p) = panics::take_last() {
        out.panics.push(format!("panic in a spawned task: {}", p));
    }
    let g = world.inner.lock().unwrap();
    out.log = g.log.clone();
    out.server_violations = g.violations;
    out.s2c_len = g.s2c_written;
    out.write_calls = g.write_calls;
    out.line_starts = g.line_starts.clone();
    out.pending_at_end = g.pending.clone();
    out.fault_fired = g.fault_fired;
    if !out.transport_dropped {
        out.transport_dropped = g.dropped;
    }
}

static REIDLE_DELAY: std::sync::OnceLock<Duration> = std::sync::OnceLock::new();

/// The library's re-idle delay D, MEASURED at the boundary (not read from the code): one calibration
/// session with a single request; D = virtual time between the complete delivery of its reply and the
/// client's next `idle` line. Used to aim think times at the window boundary and as the base of the
/// bounded-progress deadlines; if the client never re-idles the calibration falls back to 100 ms (and
/// C05 reports the missing idle on its own).
pub fn reidle_delay() -> Duration {
    *REIDLE_DELAY.get_or_init(|| {
        let mut sc = Scenario::new("calibration", 0xca11b);
        sc.epilogue = false;
        sc.callers = vec![(Duration::from_millis(20), vec![Step::Do(Req::Raw { shape: 0 })])];
        // a second caller that only waits (virtual time) keeps the session open long enough to see the re-idle of
        // a library whose delay is anything up to 10 minutes
        sc.callers.push((Duration::from_millis(20), vec![Step::Think(Duration::from_secs(600))]));
        // `run_session` calls `reidle_delay` through `session_main`; break the recursion with a provisional value
        CALIBRATING.with(|c| c.set(true));
        let out = run_session(&sc);
        CALIBRATING.with(|c| c.set(false));
        let mut reply_done: Option<u64> = None;
        let mut reply_end: Option<u64> = None;
        for e in &out.log {
            match &e.kind {
                EvKind::ServerWrote { kind: super::world::ReplyKind::Request, end, .. } => reply_end = Some(*end),
                EvKind::ClientRead { upto } if reply_end.map(|x| *upto >= x).unwrap_or(false) && reply_done.is_none() => reply_done = Some(e.t),
                EvKind::ClientWrote { bytes, .. } if bytes.starts_with(b"idle") => {
                    if let Some(t0) = reply_done {
                        return Duration::from_nanos(e.t - t0);
                    }
                }
                _ => {}
            }
        }
        Duration::from_millis(100)
    })
}

thread_local! {
    static CALIBRATING: std::cell::Cell<bool> = const { std::cell::Cell::new(false) };
}

/// Run one session to completion on a fresh current-thread runtime with paused time (or, for
/// `realtime` scenarios, on a 4-worker multi-thread runtime in real time).
pub fn run_session(sc: &Scenario) -> Outcome {
    // measured outside any runtime (the calibration runs a session of its own)
    let d = if CALIBRATING.with(|c| c.get()) { Duration::from_millis(100) } else { reidle_delay() };
    let rt = if sc.realtime {
        tokio::runtime::Builder::new_multi_thread().worker_threads(4).enable_time().build().expect("runtime")
    } else {
        tokio::runtime::Builder::new_current_thread()
            .enable_time()
            .start_paused(true)
            .rng_seed(tokio::runtime::RngSeed::from_bytes(&sc.rt_seed.to_le_bytes()))
            .build()
            .expect("runtime")
    };
    let sc2 = sc.clone();
    let _ = panics::take_last();
    let res = panics::catch(|| rt.block_on(session_main(sc2, d)));
    drop(rt);
    mpd_client::verif_hooks::set_sink(None);
    match res {
        Ok(o) => o,
        Err(p) => {
            let mut o = Outcome::default();
            o.panics.push(format!("session driver panicked: {}", p.0));
            o
        }
    }
}
