//! Scenario generators for the session engine: directed scenarios (which make the coverage floors
//! reachable deterministically) and seeded random scenarios.

use std::time::Duration;

use super::session::{Req, Scenario, Step};
use super::world::SegPolicy;
use crate::util::rng::Rng;

pub fn ms(x: u64) -> Duration {
    Duration::from_millis(x)
}

pub const KNOWN: &[&str] = &["database", "stored_playlist", "playlist", "player", "mixer", "output", "options", "sticker", "update", "subscription", "message", "neighbor", "mount", "partition"];
pub const UNKNOWN: &[&str] = &["foo_bar", "x-y", "Player", "PLAYER", "a_very_long_subsystem_name_that_no_mpd_version_knows_about_but_a_future_one_might_introduce_some_day_long_long_long_long_long_long_long_long_long_long_long_long_long_long_long_long_long_long_long_long_long", "queue", "zone\r", "two words", "ünï", " lead", "a: b", "mixer "];

fn names(r: &mut Rng) -> Vec<String> {
    let n = match r.below(6) {
        0 => r.range(2, 6),
        1 => 2,
        _ => 1,
    };
    (0..n).map(|_| if r.chance(1, 5) { r.pick(UNKNOWN).to_string() } else { r.pick(KNOWN).to_string() }).collect()
}

pub fn think_times(d: Duration) -> Vec<Duration> {
    vec![Duration::ZERO, ms(1), d.saturating_sub(ms(1)), d, d + ms(1), d + d / 2, d * 4]
}

fn raw(r: &mut Rng) -> Req {
    Req::Raw { shape: r.below(7) as u64 }
}

fn raw_list(r: &mut Rng) -> Req {
    let n = r.range(2, 6);
    let fail_at = if r.chance(1, 3) { Some((*r.pick(&[0, n / 2, n - 1]), *r.pick(&[2u64, 5, 50, 56, 1050, 1002]))) } else { None };
    Req::RawList { n, fail_at, shape: r.below(7) as u64 }
}

pub const NUM_DIRECTED: u64 = 37;

/// Directed scenarios; `variant` varies seeds / small timing offsets.
pub fn directed(idx: u64, variant: u64, d: Duration) -> Scenario {
    let seed = idx * 1000 + variant;
    let mut r = Rng::keyed(&[0xd1ec7ed, idx, variant]);
    let mut s = Scenario::new(&format!("directed-{}", idx), seed);
    let dms = d.as_millis() as u64;
    match idx {
        // P1: request between the chunks of an idle reply (after the first changed line)
        0 => {
            s.world.idle_seg = vec![SegPolicy::PerLine];
            s.world.idle_chunk_delay = vec![ms(30)];
            s.notifications = vec![(ms(50), vec!["player".into(), "mixer".into(), "options".into()])];
            s.callers = vec![(ms(50 + 15 + (variant % 3) * 30), vec![Step::Do(Req::Raw { shape: 1 })])];
        }
        // P1: split inside a changed line (byte-wise, 1 ms apart)
        1 => {
            s.world.idle_seg = vec![SegPolicy::PerByte];
            s.world.idle_chunk_delay = vec![ms(1)];
            s.notifications = vec![(ms(50), vec!["player".into(), "mixer".into()])];
            s.callers = vec![(ms(50 + 3 + variant % 30), vec![Step::Do(Req::Raw { shape: 0 })])];
        }
        // P1: everything but the final OK delivered
        2 => {
            s.world.idle_seg = vec![SegPolicy::PerLine];
            s.world.idle_chunk_delay = vec![ms(40)];
            s.notifications = vec![(ms(20), vec!["database".into()])];
            s.callers = vec![(ms(20 + 10 + variant % 25), vec![Step::Do(Req::Raw { shape: 2 }), Step::Think(d * 2), Step::Do(Req::Raw { shape: 1 })])];
        }
        // P2: the server answers idle while noidle is in transit
        3 => {
            s.world.c2s_latency = vec![ms(5)];
            s.world.reply_delay = vec![ms(5)];
            s.callers = vec![(ms(50), vec![Step::Do(Req::Raw { shape: 1 })])];
            s.notifications = vec![(ms(51 + variant % 4), vec!["player".into()])];
        }
        // P2 with two changes and a chopped reply
        4 => {
            s.world.c2s_latency = vec![ms(5)];
            s.world.idle_seg = vec![SegPolicy::PerLine];
            s.world.idle_chunk_delay = vec![ms(2)];
            s.callers = vec![(ms(50), vec![Step::Do(raw_list(&mut r)), Step::Do(Req::Raw { shape: 3 })])];
            s.notifications = vec![(ms(52), vec!["player".into(), "foo_bar".into()])];
        }
        // P12: idle reply completely delivered at the instant a request is enqueued
        5 => {
            s.notifications = vec![(ms(50), vec!["mixer".into()])];
            s.callers = vec![(ms(50), vec![Step::Do(Req::Raw { shape: 1 })])];
        }
        // P12, several rounds
        6 => {
            s.notifications = (1..=6).map(|k| (ms(k * 300), vec![KNOWN[(k as usize + variant as usize) % KNOWN.len()].to_string()])).collect();
            s.callers = vec![(ms(300), (0..6).flat_map(|_| vec![Step::Do(Req::Raw { shape: 0 }), Step::Think(ms(300))]).collect())];
        }
        // P3/P4/P5: think times around the re-idle delay
        7 => {
            let tt = think_times(d);
            let mut steps = Vec::new();
            for t in &tt {
                steps.push(Step::Do(Req::Raw { shape: (variant % 7) }));
                steps.push(Step::Think(*t));
            }
            steps.push(Step::Do(raw_list(&mut r)));
            s.callers = vec![(ms(10), steps)];
            s.world.reply_delay = vec![ms(variant % 3)];
        }
        // P6: three callers at once, then again
        8 => {
            for k in 0..3 {
                s.callers.push((ms(20), vec![Step::Do(Req::Raw { shape: k }), Step::Do(raw_list(&mut r)), Step::Think(ms(dms / 2)), Step::Do(Req::Raw { shape: k + 3 })]));
            }
            s.world.reply_delay = vec![ms(5)];
        }
        // P6 pipelined from one caller + another caller
        9 => {
            s.callers.push((ms(20), vec![Step::Pipelined(vec![Req::Raw { shape: 0 }, Req::Raw { shape: 1 }, raw_list(&mut r), Req::Raw { shape: 2 }])]));
            s.callers.push((ms(21), vec![Step::Do(Req::Raw { shape: 4 })]));
            s.world.reply_delay = vec![ms(3)];
            s.world.seg = vec![SegPolicy::Random(5)];
            s.world.chunk_delay = vec![ms(1)];
        }
        // P7: cancelled while queued behind another request
        10 => {
            s.world.reply_delay = vec![ms(50)];
            s.callers.push((ms(20), vec![Step::Do(Req::Raw { shape: 3 }), Step::Do(Req::Raw { shape: 1 })]));
            s.callers.push((ms(21), vec![Step::CancelAfter(ms(5 + variant % 60), Req::Raw { shape: 2 }), Step::Do(Req::Raw { shape: 0 })]));
            s.callers.push((ms(22), vec![Step::Do(Req::Raw { shape: 5 })]));
        }
        // P7: cancelled while in flight / reply partly delivered
        11 => {
            s.world.reply_delay = vec![ms(10)];
            s.world.seg = vec![SegPolicy::PerLine];
            s.world.chunk_delay = vec![ms(10)];
            s.callers.push((ms(20), vec![Step::CancelAfter(ms(1 + (variant % 8) * 10), Req::Raw { shape: 2 }), Step::Do(Req::Raw { shape: 1 })]));
            s.callers.push((ms(25), vec![Step::Do(Req::Raw { shape: 6 })]));
        }
        // P7: cancelled immediately (dt = 0)
        12 => {
            s.callers.push((ms(20), vec![Step::CancelAfter(Duration::ZERO, Req::Raw { shape: 1 }), Step::Do(Req::Raw { shape: 1 }), Step::CancelAfter(Duration::ZERO, raw_list(&mut r))]));
            s.callers.push((ms(20), vec![Step::Do(Req::Raw { shape: 0 })]));
        }
        // P8: many changes per reply, unknown names, duplicates (list semantics)
        13 => {
            s.world.pending_as_set = false;
            s.notifications = vec![
                (ms(30), vec!["player".into(), "mixer".into(), "player".into(), "foo_bar".into(), "x-y".into(), "Player".into()]),
                (ms(400), KNOWN.iter().map(|s| s.to_string()).collect()),
                (ms(800), vec![UNKNOWN[4].to_string()]),
            ];
            s.world.idle_seg = vec![[SegPolicy::Whole, SegPolicy::PerLine, SegPolicy::PerByte][(variant % 3) as usize].clone()];
            s.world.idle_chunk_delay = vec![ms(variant % 2)];
            s.callers = vec![(ms(1000), vec![Step::Do(Req::Raw { shape: 0 })])];
        }
        // P9: changes while a request is in flight (reported by noidle's reply or at the next idle)
        14 => {
            s.world.reply_delay = vec![d * 2];
            s.callers = vec![(ms(20), vec![Step::Do(Req::Raw { shape: 1 }), Step::Do(Req::Raw { shape: 2 }), Step::Think(d * 3), Step::Do(Req::Raw { shape: 0 })])];
            s.notifications = vec![(ms(60), vec!["player".into()]), (ms(61), vec!["mixer".into(), "player".into()]), (ms(20 + 2 * dms + 30), vec!["options".into()]), (ms(20 + 4 * dms + dms / 2), vec!["output".into()])];
            s.world.pending_as_set = variant % 2 == 0;
        }
        // changes inside the re-idle window
        15 => {
            s.callers = vec![(ms(20), vec![Step::Do(Req::Raw { shape: 1 }), Step::Think(d + ms(50)), Step::Do(Req::Raw { shape: 1 })])];
            s.notifications = vec![(ms(20 + dms / 2), vec!["player".into()]), (ms((20 + dms).saturating_sub(1)), vec!["mixer".into()]), (ms(20 + dms), vec!["sticker".into()]), (ms(20 + dms + 1), vec!["update".into()])];
        }
        // P10: list failing at index 0 / middle / last
        16 => {
            let mut steps = Vec::new();
            for (n, f) in [(2usize, 0usize), (5, 2), (4, 3), (6, 0), (3, 1), (2, 1)] {
                steps.push(Step::Do(Req::RawList { n, fail_at: Some((f, 50 + variant % 3 + if (n + f) % 2 == 0 { 1000 } else { 0 })), shape: (variant + n as u64) % 7 }));
            }
            steps.push(Step::Do(Req::RawList { n: 3, fail_at: None, shape: 4 }));
            s.callers = vec![(ms(20), steps)];
            s.world.seg = vec![SegPolicy::PerLine, SegPolicy::Whole, SegPolicy::Random(9)];
        }
        // single command failing
        17 => {
            s.callers = vec![(ms(20), vec![Step::Do(Req::RawList { n: 1, fail_at: Some((0, 50)), shape: 0 }), Step::Do(Req::Raw { shape: 1 }), Step::Do(Req::RawList { n: 1, fail_at: Some((0, 1050)), shape: 0 }), Step::Do(Req::RawList { n: 1, fail_at: None, shape: 3 })])];
        }
        // P11: big replies and binary, byte-wise reads for the whole session (P13)
        18 => {
            s.world.read_cap = 1;
            s.callers = vec![(ms(20), vec![Step::Do(Req::Raw { shape: 3 }), Step::Do(Req::Raw { shape: 4 }), Step::Do(Req::Raw { shape: 5 }), Step::Do(Req::Raw { shape: 6 })])];
            s.notifications = vec![(ms(10), vec!["player".into(), "mixer".into()])];
        }
        // big replies, chopped randomly with delays, spurious Pending, small writes
        19 => {
            s.world.read_cap = [7usize, 64, 4096][(variant % 3) as usize];
            s.world.pending_p = 32;
            s.world.write_cap = [1usize, 5, 1000][(variant % 3) as usize];
            s.world.seg = vec![SegPolicy::Random(12)];
            s.world.chunk_delay = vec![ms(1), ms(20)];
            s.callers = vec![(ms(20), vec![Step::Do(Req::RawList { n: 4, fail_at: None, shape: 2 }), Step::Do(Req::Raw { shape: 4 })]), (ms(25), vec![Step::Do(Req::Raw { shape: 3 })])];
        }
        // a reply that looks like an idle reply (shape 6) racing with real notifications
        20 => {
            s.callers = vec![(ms(50), vec![Step::Do(Req::Raw { shape: 6 }), Step::Do(Req::Raw { shape: 5 }), Step::Think(d * 2), Step::Do(Req::Raw { shape: 6 })])];
            s.notifications = vec![(ms(49), vec!["output".into()]), (ms(50), vec!["sticker".into()]), (ms(55), vec!["update".into()])];
            s.world.c2s_latency = vec![ms(1)];
        }
        // no caller at all: only notifications
        21 => {
            s.notifications = (0..8).map(|k| (ms(10 + k * (variant % 5 + 1)), vec![KNOWN[k as usize].to_string()])).collect();
            s.world.idle_seg = vec![SegPolicy::PerByte, SegPolicy::Whole];
        }
        // back-to-back notifications faster than the client re-idles (set vs list semantics)
        22 => {
            s.world.c2s_latency = vec![ms(5)];
            s.world.pending_as_set = variant % 2 == 0;
            s.notifications = (0..10).map(|k| (ms(50 + k), vec![KNOWN[(k % 3) as usize].to_string()])).collect();
            s.callers = vec![(ms(53), vec![Step::Do(Req::Raw { shape: 1 })])];
        }
        // events receiver dropped
        23 => {
            s.keep_events = false;
            s.notifications = vec![(ms(30), vec!["player".into()])];
            s.callers = vec![(ms(20), vec![Step::Do(Req::Raw { shape: 1 }), Step::Think(d * 2), Step::Do(Req::Raw { shape: 2 })])];
        }
        // request enqueued before the loop even starts idling (immediately after connect)
        24 => {
            s.callers = vec![(Duration::ZERO, vec![Step::Do(Req::Raw { shape: 1 })]), (Duration::ZERO, vec![Step::Do(Req::Raw { shape: 2 })])];
            s.world.c2s_latency = vec![ms(variant % 3)];
        }
        // six callers hammering, inside the window
        25 => {
            for k in 0..6u64 {
                s.callers.push((ms(20 + k), (0..4).flat_map(|j| vec![Step::Do(Req::Raw { shape: (k + j) % 7 }), Step::Think(ms((variant + j) % 3))]).collect()));
            }
        }
        // notification exactly when the window expires / idle is re-sent
        26 => {
            s.callers = vec![(ms(20), vec![Step::Do(Req::Raw { shape: 0 })])];
            s.notifications = vec![(ms((20 + dms + variant % 3).saturating_sub(1)), vec!["player".into()]), (ms(20 + dms + 5), vec!["mixer".into()])];
            s.world.c2s_latency = vec![ms(variant % 2)];
        }
        // typed workload mixed with raw
        27 => {
            s.callers = vec![
                (ms(20), vec![Step::Do(Req::TypedStatus), Step::Do(Req::TypedUpdate { token: 17 }), Step::Do(Req::TypedTuple { arity: 3, rot: (variant % 8) as usize, base: 100 })]),
                (ms(21), vec![Step::Do(Req::TypedVec { n: 4, base: 200 }), Step::Do(Req::Raw { shape: 2 })]),
            ];
        }
        // pending changes reported in the reply to idle right after a request
        28 => {
            s.world.reply_delay = vec![ms(30)];
            s.callers = vec![(ms(20), vec![Step::Do(Req::Raw { shape: 1 })])];
            s.notifications = vec![(ms(30), vec!["player".into()]), (ms(35), vec!["mixer".into()])];
            s.world.idle_seg = vec![SegPolicy::PerLine];
            s.world.idle_chunk_delay = vec![ms(variant % 4)];
        }
        // write back-pressure: the next request arrives inside the re-idle window and takes longer than the
        // window to get onto the wire
        29 => {
            s.world.write_cap = [1usize, 2, 3][(variant % 3) as usize];
            s.world.write_delay = ms(10 + 10 * (variant % 3));
            s.callers = vec![(ms(20), vec![Step::Do(Req::Raw { shape: 0 }), Step::Think(ms(5 + variant % 80)), Step::Do(Req::RawList { n: 3, fail_at: None, shape: 1 }), Step::Do(Req::Raw { shape: 2 })])];
            s.notifications = vec![(ms(25), vec!["player".into()])];
        }
        // back-pressure while idle is being cancelled and two callers wait
        30 => {
            s.world.write_cap = 2;
            s.world.write_delay = ms(15);
            s.callers = vec![(ms(300), vec![Step::Do(Req::Raw { shape: 1 })]), (ms(301 + variant % 40), vec![Step::Do(Req::Raw { shape: 5 }), Step::Think(d / 2), Step::Do(Req::Raw { shape: 0 })])];
            s.notifications = vec![(ms(310), vec!["mixer".into()])];
        }
        // the application keeps its events receiver but does not poll it before the end: 150 (every third variant:
        // 600) single changes pile up while callers keep issuing requests; nothing may be lost, the client must
        // keep re-idling and answering
        32 => {
            s.events_lazy = true;
            let n = if variant % 3 == 2 { 600 } else { 150 };
            const NAMES: [&str; 6] = ["player", "mixer", "options", "playlist", "database", "frobnicator"];
            s.notifications = (0..n).map(|k| (ms(30 + 2 * k), vec![NAMES[(k % 6) as usize].to_string()])).collect();
            s.callers = vec![
                (ms(20), vec![Step::Do(Req::Raw { shape: 1 }), Step::Think(d * 2), Step::Do(Req::Raw { shape: 0 }), Step::Think(ms(2 * n)), Step::Do(Req::Raw { shape: 2 })]),
                (ms(100 + variant % 50), vec![Step::Do(Req::RawList { n: 3, fail_at: None, shape: 1 }), Step::Think(d + ms(variant % 7)), Step::Do(Req::Raw { shape: 5 })]),
            ];
        }
        // the same with replies carrying 5 changes each and a chopped transport
        33 => {
            s.events_lazy = true;
            s.world.idle_seg = vec![SegPolicy::PerLine];
            s.world.idle_chunk_delay = vec![ms(variant % 2)];
            s.notifications = (0..40).map(|k| (ms(30 + 9 * k), vec!["player".to_string(), "mixer".into(), "sticker".into(), "output".into(), format!("unknown{}", k)])).collect();
            s.callers = vec![(ms(50 + variant % 90), vec![Step::Do(Req::Raw { shape: 1 }), Step::Think(d / 2), Step::Do(Req::Raw { shape: 3 }), Step::Think(d * 3), Step::Do(Req::Raw { shape: 0 })])];
        }
        // a reply with 61-65 distinct field names brings the number of names this connection has seen to 62-66 BEFORE the
        // first `changed` line ever arrives; that first idle reply is then delivered line by line with a request
        // arriving between its lines (P1)
        34 => {
            s.world.idle_seg = vec![SegPolicy::PerLine];
            s.world.idle_chunk_delay = vec![ms(30)];
            let mut first: Vec<Step> = (0..variant % 5).map(|_| Step::Do(Req::Raw { shape: 0 })).collect();
            first.push(Step::Do(Req::Raw { shape: 7 }));
            s.callers = vec![(ms(5), first), (ms(500 + 15 + (variant / 5 % 3) * 30), vec![Step::Do(Req::Raw { shape: 1 })])];
            s.notifications = vec![(ms(500), vec!["player".into(), "mixer".into(), "options".into()])];
        }
        // a flood: hundreds of requests issued at the same instant by three callers (far more than any internal queue
        // bound one might think of); every one of them gets its own reply, per-caller order kept
        35 => {
            let n = [129usize, 200, 300, 1000, 140, 520][(variant % 6) as usize];
            s.world.reply_delay = vec![ms(variant / 6 % 2)];
            s.callers.push((ms(20), vec![Step::Pipelined((0..n / 2).map(|k| Req::Raw { shape: if k % 50 == 7 { 1 } else { 0 } }).collect())]));
            s.callers.push((ms(20), vec![Step::Pipelined((0..n - n / 2).map(|_| Req::Raw { shape: 0 }).collect())]));
            s.callers.push((ms(20), vec![Step::Do(Req::Raw { shape: 2 }), Step::Do(Req::Raw { shape: 1 })]));
            s.notifications = vec![(ms(21), vec!["player".into()])];
        }
        // several callers ask the same argument-less question at the same time (byte-identical requests), some of them
        // pipelined: each is a request of its own
        36 => {
            s.world.reply_delay = vec![ms(variant % 4 * 5)];
            s.world.c2s_latency = vec![ms(variant / 4 % 2)];
            for k in 0..3 {
                s.callers.push((ms(20 + (variant / 8 % 2) * k), vec![Step::Do(Req::TypedStatus), Step::Pipelined(vec![Req::TypedStatus, Req::TypedStatus]), Step::Do(Req::Raw { shape: 1 }), Step::Do(Req::TypedStatus)]));
            }
            s.notifications = vec![(ms(22), vec!["player".into()])];
        }
        // cancelled call whose request is still executed by the server, next caller right behind
        _ => {
            s.world.c2s_latency = vec![ms(2)];
            s.world.reply_delay = vec![ms(20)];
            s.callers = vec![(ms(20), vec![Step::CancelAfter(ms(10), Req::Raw { shape: 4 })]), (ms(22), vec![Step::Do(Req::Raw { shape: 5 }), Step::Do(Req::Raw { shape: 1 })])];
            s.notifications = vec![(ms(25), vec!["player".into()])];
        }
    }
    s
}

/// Bounded-exhaustive timing grids: every relative timing (1 ms resolution) of a request and a
/// notification around the racy points, for several wire latencies and idle-reply choppings.
pub const GRID_A: u64 = 21 * 21 * 2 * 2; // request x notification x latency x chopping
pub const GRID_B: u64 = 11 * 11 * 2; // second request x notification around the re-idle window x latency
pub const NUM_GRID: u64 = GRID_A + GRID_B;

pub fn grid(idx: u64, d: Duration) -> Scenario {
    let mut s = Scenario::new("timing-grid", 0x671d0000 + idx);
    let dms = d.as_millis() as u64;
    if idx < GRID_A {
        let a = idx % 21;
        let b = (idx / 21) % 21;
        let lat = (idx / 441) % 2;
        let chop = (idx / 882) % 2;
        s.name = format!("timing-grid-A(req@{}ms, change@{}ms, latency {}, chop {})", 50 + a, 50 + b, lat * 3, chop);
        s.world.c2s_latency = vec![ms(lat * 3)];
        s.world.reply_delay = vec![ms(lat * 2)];
        if chop == 1 {
            s.world.idle_seg = vec![SegPolicy::PerLine];
            s.world.idle_chunk_delay = vec![ms(4)];
        }
        s.callers = vec![(ms(50 + a), vec![Step::Do(Req::Raw { shape: 1 }), Step::Do(Req::Raw { shape: 6 })])];
        s.notifications = vec![(ms(50 + b), vec!["player".into(), "mixer".into()]), (ms(50 + b + 7), vec!["options".into()])];
    } else {
        let k = idx - GRID_A;
        let a = k % 11;
        let b = (k / 11) % 11;
        let lat = (k / 121) % 2;
        s.name = format!("timing-grid-B(second request {} ms around the window end, change {} ms around it, latency {})", a as i64 - 5, b as i64 - 5, lat * 2);
        s.world.c2s_latency = vec![ms(lat * 2)];
        // first reply is delivered at 20 ms (+ latency); the window ends D later
        s.callers = vec![(ms(20), vec![Step::Do(Req::Raw { shape: 0 })]), (ms((20 + lat * 2 + dms + a).saturating_sub(5)), vec![Step::Do(Req::Raw { shape: 1 })])];
        s.notifications = vec![(ms((20 + lat * 2 + dms + b).saturating_sub(5)), vec!["sticker".into()])];
    }
    s
}

/// Seeded random scenario.
pub fn random(seed: u64, d: Duration) -> Scenario {
    let mut r = Rng::keyed(&[0x5ce7a210, seed]);
    let mut s = Scenario::new("random", seed);
    let tt = think_times(d);
    let ncallers = match r.below(6) {
        0 => 1,
        1 => r.range(4, 6),
        _ => r.range(1, 3),
    };
    let mut budget = 40usize;
    for _ in 0..ncallers {
        let nsteps = r.range(1, 8);
        let mut steps = Vec::new();
        for _ in 0..nsteps {
            if budget == 0 {
                break;
            }
            match r.below(12) {
                0 | 1 | 2 => steps.push(Step::Think(*r.pick(&tt))),
                3 | 4 | 5 | 6 => {
                    steps.push(Step::Do(raw(&mut r)));
                    budget -= 1;
                }
                7 | 8 => {
                    steps.push(Step::Do(raw_list(&mut r)));
                    budget -= 1;
                }
                9 => {
                    let k = r.range(2, 4).min(budget);
                    steps.push(Step::Pipelined((0..k).map(|_| if r.chance(1, 4) { raw_list(&mut r) } else { raw(&mut r) }).collect()));
                    budget -= k;
                }
                10 => {
                    steps.push(Step::CancelAfter(*r.pick(&[Duration::ZERO, ms(1), ms(5), ms(20), ms(60), d, d * 2]), raw(&mut r)));
                    budget -= 1;
                }
                _ => {
                    steps.push(Step::Think(ms(r.below(30) as u64)));
                }
            }
        }
        let start = match r.below(4) {
            0 => Duration::ZERO,
            _ => ms(r.below(400) as u64),
        };
        s.callers.push((start, steps));
    }
    let sub = |r: &mut Rng, xs: &[Duration]| -> Vec<Duration> {
        let n = r.range(1, xs.len().min(3));
        (0..n).map(|_| *r.pick(xs)).collect()
    };
    s.world.reply_delay = sub(&mut r, &[Duration::ZERO, ms(1), ms(5), d, d * 2]);
    s.world.c2s_latency = sub(&mut r, &[Duration::ZERO, ms(1), ms(5)]);
    s.world.chunk_delay = sub(&mut r, &[Duration::ZERO, ms(1), ms(20)]);
    s.world.idle_chunk_delay = sub(&mut r, &[Duration::ZERO, ms(1), ms(20), ms(150)]);
    let segs = [SegPolicy::Whole, SegPolicy::PerLine, SegPolicy::PerByte, SegPolicy::Random(6)];
    s.world.seg = (0..r.range(1, 3)).map(|_| r.pick(&segs).clone()).collect();
    // per-byte chunks with long delays make sessions very long in virtual time but cost nothing real
    s.world.idle_seg = (0..r.range(1, 2)).map(|_| r.pick(&segs).clone()).collect();
    s.world.read_cap = *r.pick(&[1usize, 2, 7, 64, 4096, usize::MAX, usize::MAX]);
    s.world.pending_p = *r.pick(&[0u32, 0, 32]);
    s.world.write_cap = *r.pick(&[usize::MAX, usize::MAX, 5, 1]);
    s.world.pending_as_set = r.chance(1, 2);
    // write back-pressure (a slow peer): small writes, each held back for a while
    if r.chance(1, 8) {
        s.world.write_cap = *r.pick(&[1usize, 3, 5]);
        s.world.write_delay = *r.pick(&[ms(1), ms(10), ms(40)]);
    }
    // the application may drop the events receiver
    s.keep_events = !r.chance(1, 10);
    // ... or keep it without polling it before the end
    s.events_lazy = s.keep_events && r.chance(1, 12);
    // a transport whose shutdown never completes
    s.world.shutdown_stalls = r.chance(1, 8);
    // a server that wants a password (accepted), through either constructor; PasswordOpt(None) is the plain connect
    match r.below(12) {
        0 => {
            s.world.password = Some(("open sesame".into(), crate::sim::world::PasswordVerdict::Accept));
            s.connect = crate::sim::session::ConnectKind::Password("open sesame".into());
        }
        1 => {
            s.world.password = Some(("x".into(), crate::sim::world::PasswordVerdict::Accept));
            s.connect = crate::sim::session::ConnectKind::PasswordOpt(Some("x".into()));
        }
        2 => s.connect = crate::sim::session::ConnectKind::PasswordOpt(None),
        _ => {}
    }
    // notifications over the span of the session
    let n = match r.below(4) {
        0 => 0,
        1 => r.range(6, 12),
        _ => r.range(1, 5),
    };
    let mut t = 0u64;
    for _ in 0..n {
        t += match r.below(5) {
            0 => 0,
            1 => 1,
            2 => r.below(20) as u64,
            _ => r.below(300) as u64,
        };
        s.notifications.push((ms(t), names(&mut r)));
    }
    s
}
