//! Capturing what `Connection::send` / `send_list` (blocking and async) put on the wire.

use std::cell::RefCell;
use std::io::{self, Read, Write};
use std::pin::Pin;
use std::rc::Rc;
use std::task::{Context, Poll};

use mpd_protocol::command::{Command, CommandList};
use mpd_protocol::{AsyncConnection, Connection};
use tokio::io::{AsyncRead, AsyncWrite, ReadBuf};

use super::wirerun::{spin_block_on, GREETING};

pub struct CaptureIo {
    greeting_pos: usize,
    out: Rc<RefCell<Vec<u8>>>,
    /// accept at most this many bytes per write call (exercises write_all loops)
    write_cap: usize,
    /// once this many bytes have been accepted every further write fails (a peer that went away)
    fail_after: Option<usize>,
    accepted: usize,
}

impl CaptureIo {
    fn accept(&mut self, buf: &[u8]) -> io::Result<usize> {
        let mut n = buf.len().min(self.write_cap);
        if let Some(limit) = self.fail_after {
            if self.accepted >= limit {
                return Err(io::Error::new(io::ErrorKind::BrokenPipe, "simulated: peer went away"));
            }
            n = n.min(limit - self.accepted).max(1);
        }
        self.accepted += n;
        self.out.borrow_mut().extend_from_slice(&buf[..n]);
        Ok(n)
    }
}

impl Read for CaptureIo {
    fn read(&mut self, buf: &mut [u8]) -> io::Result<usize> {
        let rest = &GREETING[self.greeting_pos..];
        let n = rest.len().min(buf.len());
        buf[..n].copy_from_slice(&rest[..n]);
        self.greeting_pos += n;
        Ok(n)
    }
}

impl Write for CaptureIo {
    fn write(&mut self, buf: &[u8]) -> io::Result<usize> {
        self.accept(buf)
    }
    fn flush(&mut self) -> io::Result<()> {
        Ok(())
    }
}

impl AsyncRead for CaptureIo {
    fn poll_read(mut self: Pin<&mut Self>, _cx: &mut Context<'_>, buf: &mut ReadBuf<'_>) -> Poll<io::Result<()>> {
        let rest = &GREETING[self.greeting_pos..];
        let n = rest.len().min(buf.remaining());
        buf.put_slice(&rest[..n]);
        self.greeting_pos += n;
        Poll::Ready(Ok(()))
    }
}

impl AsyncWrite for CaptureIo {
    fn poll_write(mut self: Pin<&mut Self>, _cx: &mut Context<'_>, buf: &[u8]) -> Poll<io::Result<usize>> {
        Poll::Ready(self.accept(buf))
    }
    fn poll_flush(self: Pin<&mut Self>, _cx: &mut Context<'_>) -> Poll<io::Result<()>> {
        Poll::Ready(Ok(()))
    }
    fn poll_shutdown(self: Pin<&mut Self>, _cx: &mut Context<'_>) -> Poll<io::Result<()>> {
        Poll::Ready(Ok(()))
    }
}

/// A real blocking connection whose writes are captured.
pub struct SyncCapture {
    conn: Connection<CaptureIo>,
    out: Rc<RefCell<Vec<u8>>>,
}

impl SyncCapture {
    pub fn new(write_cap: usize) -> SyncCapture {
        let out = Rc::new(RefCell::new(Vec::new()));
        let io = CaptureIo { greeting_pos: 0, out: out.clone(), write_cap: write_cap.max(1), fail_after: None, accepted: 0 };
        let conn = Connection::connect(io).expect("connect over capture io");
        SyncCapture { conn, out }
    }
    pub fn send(&mut self, c: Command) -> Vec<u8> {
        self.out.borrow_mut().clear();
        self.conn.send(c).expect("send over capture io");
        std::mem::take(&mut *self.out.borrow_mut())
    }
    pub fn send_list(&mut self, l: CommandList) -> Vec<u8> {
        self.out.borrow_mut().clear();
        self.conn.send_list(l).expect("send_list over capture io");
        std::mem::take(&mut *self.out.borrow_mut())
    }
}

pub struct AsyncCapture {
    conn: AsyncConnection<CaptureIo>,
    out: Rc<RefCell<Vec<u8>>>,
}

impl AsyncCapture {
    pub fn new(write_cap: usize) -> AsyncCapture {
        let out = Rc::new(RefCell::new(Vec::new()));
        let io = CaptureIo { greeting_pos: 0, out: out.clone(), write_cap: write_cap.max(1), fail_after: None, accepted: 0 };
        let conn = spin_block_on(AsyncConnection::connect(io)).expect("connect over capture io");
        AsyncCapture { conn, out }
    }
    pub fn send(&mut self, c: Command) -> Vec<u8> {
        self.out.borrow_mut().clear();
        spin_block_on(self.conn.send(c)).expect("send over capture io");
        std::mem::take(&mut *self.out.borrow_mut())
    }
    pub fn send_list(&mut self, l: CommandList) -> Vec<u8> {
        self.out.borrow_mut().clear();
        spin_block_on(self.conn.send_list(l)).expect("send_list over capture io");
        std::mem::take(&mut *self.out.borrow_mut())
    }
}

/// What an application does on the same thread before the sends that are examined: it had another connection
/// whose peer went away in the middle of a request (the write fails after `accept` bytes). The failed requests
/// must leave no trace in what later connections write. Returns how many of the sends failed.
pub fn failed_sends_on_another_connection(accept: usize, single: Command, list: CommandList) -> usize {
    let mut failed = 0;
    let out = Rc::new(RefCell::new(Vec::new()));
    let io = CaptureIo { greeting_pos: 0, out: out.clone(), write_cap: 7, fail_after: Some(accept), accepted: 0 };
    if let Ok(mut conn) = Connection::connect(io) {
        failed += conn.send_list(list.clone()).is_err() as usize;
        failed += conn.send(single.clone()).is_err() as usize;
    }
    let io = CaptureIo { greeting_pos: 0, out, write_cap: 7, fail_after: Some(accept), accepted: 0 };
    if let Ok(mut conn) = spin_block_on(AsyncConnection::connect(io)) {
        failed += spin_block_on(conn.send_list(list)).is_err() as usize;
        failed += spin_block_on(conn.send(single)).is_err() as usize;
    }
    failed
}
