//! Offline analysis of one session's boundary log: what the client wrote (grouped into request
//! units), what the server answered, what had been delivered when. Shared by the history checkers.

use std::collections::HashMap;

use super::session::Outcome;
use super::world::{CallId, CallResult, Ev, EvKind, ReplyKind};

#[derive(Clone, Debug, PartialEq, Eq)]
pub enum UnitKind {
    Idle,
    Noidle,
    Password,
    Single,
    List,
}

#[derive(Clone, Debug)]
pub struct Unit {
    pub kind: UnitKind,
    /// client-side line indices (== server line_idx: the transport is FIFO)
    pub first_line: usize,
    pub last_line: usize,
    pub lines: Vec<Vec<u8>>,
    /// log index of the write that carried the first byte / the final LF
    pub start_log: usize,
    pub end_log: usize,
    pub start_t: u64,
    pub end_t: u64,
    pub complete: bool,
}

#[derive(Clone, Debug)]
pub struct Reply {
    pub kind: ReplyKind,
    pub start: u64,
    pub end: u64,
    pub changed: Vec<String>,
    pub log_idx: usize,
    pub t: u64,
}

pub struct Analysis<'a> {
    pub out: &'a Outcome,
    pub units: Vec<Unit>,
    /// reply per client line index (the last line of a unit carries the unit's reply)
    pub reply_for_line: HashMap<usize, Reply>,
    pub replies: Vec<Reply>,
    /// (log index, bytes delivered so far) in log order
    pub delivered: Vec<(usize, u64, u64)>,
}

impl<'a> Analysis<'a> {
    pub fn new(out: &'a Outcome) -> Analysis<'a> {
        let log = &out.log;
        // ---- client lines ------------------------------------------------------------------------
        let mut lines: Vec<(Vec<u8>, usize, usize, u64, u64)> = Vec::new(); // line, start_log, end_log, start_t, end_t
        let mut cur: Vec<u8> = Vec::new();
        let mut cur_start: Option<(usize, u64)> = None;
        for (li, e) in log.iter().enumerate() {
            if let EvKind::ClientWrote { bytes, .. } = &e.kind {
                for &b in bytes {
                    if cur_start.is_none() {
                        cur_start = Some((li, e.t));
                    }
                    if b == b'\n' {
                        let (sl, st) = cur_start.take().unwrap();
                        lines.push((std::mem::take(&mut cur), sl, li, st, e.t));
                    } else {
                        cur.push(b);
                    }
                }
            }
        }
        let trailing = if cur_start.is_some() { Some((cur.clone(), cur_start.unwrap())) } else { None };
        // ---- units -------------------------------------------------------------------------------
        let mut units: Vec<Unit> = Vec::new();
        let mut i = 0;
        while i < lines.len() {
            let (l, sl, el, st, et) = &lines[i];
            if l == b"command_list_ok_begin" || l == b"command_list_begin" {
                let mut j = i + 1;
                let mut ls = vec![l.clone()];
                let mut complete = false;
                while j < lines.len() {
                    ls.push(lines[j].0.clone());
                    if lines[j].0 == b"command_list_end" {
                        complete = true;
                        break;
                    }
                    j += 1;
                }
                let last = j.min(lines.len() - 1);
                units.push(Unit { kind: UnitKind::List, first_line: i, last_line: last, lines: ls, start_log: *sl, end_log: lines[last].2, start_t: *st, end_t: lines[last].4, complete });
                i = last + 1;
                continue;
            }
            let kind = if l == b"idle" || l.starts_with(b"idle ") {
                UnitKind::Idle
            } else if l == b"noidle" {
                UnitKind::Noidle
            } else if l.starts_with(b"password ") || l == b"password" {
                UnitKind::Password
            } else {
                UnitKind::Single
            };
            units.push(Unit { kind, first_line: i, last_line: i, lines: vec![l.clone()], start_log: *sl, end_log: *el, start_t: *st, end_t: *et, complete: true });
            i += 1;
        }
        if let Some((l, (sl, st))) = trailing {
            units.push(Unit { kind: UnitKind::Single, first_line: lines.len(), last_line: lines.len(), lines: vec![l], start_log: sl, end_log: sl, start_t: st, end_t: st, complete: false });
        }
        // ---- replies -----------------------------------------------------------------------------
        let mut reply_for_line = HashMap::new();
        let mut replies = Vec::new();
        let mut delivered = Vec::new();
        for (li, e) in log.iter().enumerate() {
            match &e.kind {
                EvKind::ServerWrote { kind, start, end, changed, for_lines } => {
                    let r = Reply { kind: *kind, start: *start, end: *end, changed: changed.clone(), log_idx: li, t: e.t };
                    for l in for_lines {
                        reply_for_line.insert(*l, r.clone());
                    }
                    replies.push(r);
                }
                EvKind::ClientRead { upto } => delivered.push((li, *upto, e.t)),
                _ => {}
            }
        }
        Analysis { out, units, reply_for_line, replies, delivered }
    }

    pub fn log(&self) -> &[Ev] {
        &self.out.log
    }

    /// bytes delivered to the client strictly before log index `li`
    pub fn delivered_before(&self, li: usize) -> u64 {
        match self.delivered.iter().rev().find(|(i, _, _)| *i < li) {
            Some((_, upto, _)) => *upto,
            None => 0,
        }
    }

    /// (log index, time) at which the stream offset `off` had been delivered completely
    pub fn delivery_point(&self, off: u64) -> Option<(usize, u64)> {
        self.delivered.iter().find(|(_, upto, _)| *upto >= off).map(|(i, _, t)| (*i, *t))
    }

    pub fn total_delivered(&self) -> u64 {
        self.delivered.last().map(|(_, u, _)| *u).unwrap_or(0)
    }

    /// The reply to a unit, if the server wrote one. Idle units answered by a server-initiated
    /// notification have no `for_lines` link: they are matched to the first Idle-kind reply written
    /// after the server received the idle line.
    pub fn unit_reply(&self, ui: usize) -> Option<Reply> {
        let u = &self.units[ui];
        if let Some(r) = self.reply_for_line.get(&u.last_line) {
            return Some(r.clone());
        }
        if u.kind == UnitKind::Idle {
            // when did the server receive this line?
            let got = self.log().iter().position(|e| matches!(&e.kind, EvKind::ServerGot { line_idx, .. } if *line_idx == u.last_line))?;
            // the next noidle reply or idle reply after that answers it (whichever comes first);
            // a noidle reply is linked to the noidle line, which then also ends this idle
            for r in &self.replies {
                if r.log_idx > got && matches!(r.kind, ReplyKind::Idle | ReplyKind::Noidle) {
                    return Some(r.clone());
                }
            }
        }
        None
    }

    pub fn calls(&self) -> Vec<CallView> {
        let mut m: HashMap<CallId, CallView> = HashMap::new();
        let mut order = Vec::new();
        for (li, e) in self.log().iter().enumerate() {
            match &e.kind {
                EvKind::CallStart { call, desc } => {
                    order.push(*call);
                    m.insert(*call, CallView { call: *call, desc: desc.clone(), start_log: li, start_t: e.t, end: None, cancelled: None });
                }
                EvKind::CallEnd { call, result } => {
                    if let Some(c) = m.get_mut(call) {
                        c.end = Some((li, e.t, result.clone()));
                    }
                }
                EvKind::CallCancelled { call } => {
                    if let Some(c) = m.get_mut(call) {
                        c.cancelled = Some((li, e.t));
                    }
                }
                _ => {}
            }
        }
        order.into_iter().filter_map(|c| m.remove(&c)).collect()
    }

    pub fn events(&self) -> Vec<(usize, u64, EvKind)> {
        self.log().iter().enumerate().filter(|(_, e)| matches!(e.kind, EvKind::EventChange(_) | EvKind::EventClosed(_) | EvKind::EventEnd)).map(|(i, e)| (i, e.t, e.kind.clone())).collect()
    }

    /// Abstract interleaving signature of the session (times dropped).
    pub fn signature(&self) -> u64 {
        let mut parts: Vec<u64> = Vec::new();
        for e in self.log() {
            let code: u64 = match &e.kind {
                EvKind::CallStart { call, .. } => 100 + call.caller as u64,
                EvKind::CallEnd { call, result } => 200 + call.caller as u64 * 2 + result.is_ok() as u64,
                EvKind::CallCancelled { call } => 300 + call.caller as u64,
                EvKind::ClientWrote { bytes, .. } => {
                    if bytes.starts_with(b"idle") {
                        1
                    } else if bytes.starts_with(b"noidle") {
                        2
                    } else if bytes.starts_with(b"command_list") {
                        3
                    } else {
                        4
                    }
                }
                EvKind::ServerWrote { kind, changed, .. } => 10 + *kind as u64 * 8 + changed.len().min(7) as u64,
                EvKind::ClientRead { .. } => continue,
                EvKind::Notify { while_idle, .. } => 60 + *while_idle as u64,
                EvKind::EventChange(_) => 70,
                EvKind::EventClosed(_) => 71,
                EvKind::EventEnd => 72,
                EvKind::Fault(_) => 80,
                EvKind::Hook(h) => {
                    if h.starts_with("Select") {
                        90 + h.contains("Reply") as u64
                    } else {
                        continue;
                    }
                }
                _ => continue,
            };
            parts.push(code);
        }
        crate::util::rng::mix(&parts)
    }
}

#[derive(Clone, Debug)]
pub struct CallView {
    pub call: CallId,
    pub desc: String,
    pub start_log: usize,
    pub start_t: u64,
    pub end: Option<(usize, u64, CallResult)>,
    pub cancelled: Option<(usize, u64)>,
}

/// Coverage predicates P1… of DESIGN.md section 4, computed from the boundary log.
#[derive(Clone, Debug, Default)]
pub struct Coverage {
    pub p1_request_during_partial_idle_reply: bool,
    pub p2_noidle_while_server_not_idle: bool,
    pub p3_next_request_inside_window: bool,
    pub p4_request_after_window: bool,
    pub p6_queued_behind_inflight: bool,
    pub p7_cancelled: bool,
    pub p8_multi_changed_reply: bool,
    pub p8_unknown_subsystem: bool,
    pub p9_change_while_request_in_flight: bool,
    pub p10_list_failure: bool,
    pub p11_big_or_binary_reply: bool,
    pub p12_both_select_branches_ready: bool,
    pub select_reply_first: bool,
    pub select_command_first: bool,
    pub overlap: bool,
}

pub fn coverage(a: &Analysis<'_>) -> Coverage {
    let mut c = Coverage::default();
    let log = a.log();
    // P1: a CallStart while an Idle-kind reply is partly (but not completely) delivered
    for r in &a.replies {
        if matches!(r.kind, ReplyKind::Idle) && r.end - r.start > 3 {
            // find log interval during which start < delivered < end
            let first = a.delivered.iter().find(|(_, u, _)| *u > r.start).map(|(i, _, _)| *i);
            let full = a.delivered.iter().find(|(_, u, _)| *u >= r.end).map(|(i, _, _)| *i).unwrap_or(usize::MAX);
            if let Some(first) = first {
                if first < full {
                    if log.iter().enumerate().any(|(i, e)| i > first && i < full && matches!(e.kind, EvKind::CallStart { .. })) {
                        c.p1_request_during_partial_idle_reply = true;
                    }
                }
            }
        }
        if matches!(r.kind, ReplyKind::Idle | ReplyKind::Noidle) {
            if r.changed.len() >= 2 {
                c.p8_multi_changed_reply = true;
            }
            if r.changed.iter().any(|n| n != "epilogue_probe" && !crate::refmodel::mpdspec::SUBSYSTEMS.contains(&n.as_str())) {
                c.p8_unknown_subsystem = true;
            }
        }
        if r.kind == ReplyKind::Request && r.end - r.start > 4096 {
            c.p11_big_or_binary_reply = true;
        }
    }
    let mut last_unit_kind: Option<UnitKind> = None;
    for u in &a.units {
        match (&last_unit_kind, &u.kind) {
            (Some(UnitKind::Single) | Some(UnitKind::List), UnitKind::Single | UnitKind::List) => c.p3_next_request_inside_window = true,
            (Some(UnitKind::Noidle), UnitKind::Single | UnitKind::List) => c.p4_request_after_window = true,
            _ => {}
        }
        last_unit_kind = Some(u.kind.clone());
    }
    for e in log {
        match &e.kind {
            EvKind::ServerGot { line, phase, .. } if line == b"noidle" && *phase == super::world::Phase::Normal => c.p2_noidle_while_server_not_idle = true,
            EvKind::CallCancelled { .. } => c.p7_cancelled = true,
            EvKind::CallEnd { result: CallResult::ErrResponse { .. }, .. } => c.p10_list_failure = true,
            EvKind::Notify { while_idle: false, .. } => c.p9_change_while_request_in_flight = true,
            EvKind::Hook(h) if h == "SelectReply" => c.select_reply_first = true,
            EvKind::Hook(h) if h.starts_with("SelectCommand") && h.contains("true") => c.select_command_first = true,
            _ => {}
        }
    }
    // P6: >= 2 calls open at the same time from >= 2 callers
    let calls = a.calls();
    for x in &calls {
        for y in &calls {
            if x.call.caller != y.call.caller {
                let xe = x.end.as_ref().map(|e| e.0).or(x.cancelled.map(|c| c.0)).unwrap_or(usize::MAX);
                if y.start_log > x.start_log && y.start_log < xe {
                    c.p6_queued_behind_inflight = true;
                }
            }
        }
    }
    // P12: a call starts at the same virtual instant an idle reply is completely delivered
    for r in &a.replies {
        if r.kind == ReplyKind::Idle {
            if let Some((_, t)) = a.delivery_point(r.end) {
                if calls.iter().any(|cv| cv.start_t == t) {
                    c.p12_both_select_branches_ready = true;
                }
            }
        }
    }
    c.overlap = c.p1_request_during_partial_idle_reply || c.p2_noidle_while_server_not_idle || c.p6_queued_behind_inflight || c.p7_cancelled || c.p9_change_while_request_in_flight || c.p12_both_select_branches_ready;
    c
}

pub fn count_coverage(acc: &mut crate::util::acc::Acc, c: &Coverage) {
    let mut f = |k: &str, b: bool| {
        if b {
            acc.inc(k);
        }
    };
    f("P1_request_during_partly_delivered_idle_reply", c.p1_request_during_partial_idle_reply);
    f("P2_noidle_received_while_server_not_idle", c.p2_noidle_while_server_not_idle);
    f("P3_next_request_inside_reidle_window", c.p3_next_request_inside_window);
    f("P4_request_after_window_idle_noidle_request", c.p4_request_after_window);
    f("P6_requests_queued_behind_inflight_from_2_callers", c.p6_queued_behind_inflight);
    f("P7_caller_cancelled", c.p7_cancelled);
    f("P8_reply_with_2plus_changed_lines", c.p8_multi_changed_reply);
    f("P8_unknown_subsystem_name", c.p8_unknown_subsystem);
    f("P9_change_while_not_idle", c.p9_change_while_request_in_flight);
    f("P10_list_failure", c.p10_list_failure);
    f("P11_reply_over_4096_bytes", c.p11_big_or_binary_reply);
    f("P12_call_at_instant_of_idle_reply_delivery", c.p12_both_select_branches_ready);
    f("select_reply_branch_taken", c.select_reply_first);
    f("select_command_branch_taken", c.select_command_first);
}
