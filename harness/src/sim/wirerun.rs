//! Drives the real `Connection` / `AsyncConnection` over a byte stream with dictated read sizes
//! and turns what they return into `Vec<Item>` through the public API only.

use std::cell::RefCell;
use std::future::Future;
use std::io::{self, Read, Write};
use std::pin::Pin;
use std::rc::Rc;
use std::task::{Context, Poll, Waker};

use mpd_protocol::response::Response;
use mpd_protocol::{AsyncConnection, Connection, MpdProtocolError};
use tokio::io::{AsyncRead, AsyncWrite, ReadBuf};

use crate::refmodel::wire::{AError, DFrame, DResponse, Item};
use crate::util::panics;
use crate::util::rng::Rng;

pub const GREETING: &[u8] = b"OK MPD 0.23.5\n";

/// How the body of a stream is cut into reads.
#[derive(Clone, Debug, PartialEq, Eq)]
pub enum Seg {
    Whole,
    Bytewise,
    /// sorted offsets (relative to the body) at which a read must end
    Cuts(Vec<usize>),
}

impl Seg {
    pub fn random(r: &mut Rng, len: usize, kmax: usize) -> Seg {
        if len < 2 {
            return Seg::Whole;
        }
        let k = r.range(1, kmax.min(len - 1));
        let mut cuts: Vec<usize> = (0..k).map(|_| r.range(1, len - 1)).collect();
        cuts.sort_unstable();
        cuts.dedup();
        Seg::Cuts(cuts)
    }
    pub fn describe(&self) -> String {
        match self {
            Seg::Whole => "whole".into(),
            Seg::Bytewise => "bytewise".into(),
            Seg::Cuts(c) if c.len() <= 8 => format!("cuts{:?}", c),
            Seg::Cuts(c) => format!("cuts[{} points]", c.len()),
        }
    }
    pub fn hash(&self) -> u64 {
        match self {
            Seg::Whole => 1,
            Seg::Bytewise => 2,
            Seg::Cuts(c) => {
                let mut parts = vec![3u64];
                parts.extend(c.iter().map(|&x| x as u64));
                crate::util::rng::mix(&parts)
            }
        }
    }
    pub fn chunks(&self, len: usize) -> usize {
        match self {
            Seg::Whole => 1,
            Seg::Bytewise => len.max(1),
            Seg::Cuts(c) => c.len() + 1,
        }
    }
}

/// What the stream does once its bytes are used up.
#[derive(Clone, Debug, PartialEq, Eq)]
pub enum StreamEnd {
    Eof,
    Error(io::ErrorKind),
}

#[derive(Debug, Default)]
pub struct ReadStats {
    pub reads: usize,
    pub zero_reads_in_call: usize,
    pub reads_in_call: usize,
    pub max_reads_in_call: usize,
    pub budget_exceeded: bool,
    pub empty_buf_reads: usize,
    pub fed: usize,
}

pub const BUDGET_MARKER: &str = "VERIF-READ-BUDGET";

struct Core {
    data: Vec<u8>,
    pos: usize,
    /// absolute offsets at which a read must stop (sorted); greeting boundary included
    stops: Vec<usize>,
    bytewise_from: Option<usize>,
    end: StreamEnd,
    stats: Rc<RefCell<ReadStats>>,
}

impl Core {
    fn new(greeting: &[u8], body: &[u8], seg: &Seg, end: StreamEnd, stats: Rc<RefCell<ReadStats>>) -> Core {
        let mut data = greeting.to_vec();
        data.extend_from_slice(body);
        let g = greeting.len();
        let mut stops = vec![g];
        let mut bytewise_from = None;
        match seg {
            Seg::Whole => {}
            Seg::Bytewise => bytewise_from = Some(g),
            Seg::Cuts(c) => stops.extend(c.iter().map(|x| x + g)),
        }
        Core { data, pos: 0, stops, bytewise_from, end, stats }
    }

    /// number of bytes the next read may return at most
    fn next_limit(&self) -> usize {
        let remaining = self.data.len() - self.pos;
        if let Some(b) = self.bytewise_from {
            if self.pos >= b {
                return remaining.min(1);
            }
        }
        match self.stops.iter().find(|&&s| s > self.pos) {
            Some(&s) => (s - self.pos).min(remaining),
            None => remaining,
        }
    }

    fn do_read(&mut self, buf: &mut [u8]) -> io::Result<usize> {
        {
            let mut st = self.stats.borrow_mut();
            st.reads += 1;
            st.reads_in_call += 1;
            if st.reads_in_call > st.max_reads_in_call {
                st.max_reads_in_call = st.reads_in_call;
            }
            if buf.is_empty() {
                st.empty_buf_reads += 1;
            }
            if st.zero_reads_in_call >= 1 {
                st.budget_exceeded = true;
                if st.zero_reads_in_call >= 3 {
                    drop(st);
                    panic!("{}", BUDGET_MARKER);
                }
            }
        }
        if self.pos >= self.data.len() {
            match &self.end {
                StreamEnd::Eof => {
                    self.stats.borrow_mut().zero_reads_in_call += 1;
                    return Ok(0);
                }
                StreamEnd::Error(k) => {
                    self.stats.borrow_mut().zero_reads_in_call += 1;
                    return Err(io::Error::new(*k, "injected"));
                }
            }
        }
        let n = self.next_limit().min(buf.len());
        buf[..n].copy_from_slice(&self.data[self.pos..self.pos + n]);
        self.pos += n;
        let mut st = self.stats.borrow_mut();
        st.fed += n;
        if n == 0 {
            // caller passed an empty buffer: looks like EOF to it
            st.zero_reads_in_call += 1;
        }
        Ok(n)
    }
}

pub struct ChunkReader(Core);

impl Read for ChunkReader {
    fn read(&mut self, buf: &mut [u8]) -> io::Result<usize> {
        self.0.do_read(buf)
    }
}

impl Write for ChunkReader {
    fn write(&mut self, buf: &[u8]) -> io::Result<usize> {
        Ok(buf.len())
    }
    fn flush(&mut self) -> io::Result<()> {
        Ok(())
    }
}

pub struct AsyncChunkReader {
    core: Core,
    /// spurious Pending: PRNG state, probability in 1/256 units
    rng: Rng,
    pending_p: u32,
}

impl AsyncRead for AsyncChunkReader {
    fn poll_read(mut self: Pin<&mut Self>, cx: &mut Context<'_>, buf: &mut ReadBuf<'_>) -> Poll<io::Result<()>> {
        let pp = self.pending_p;
        if pp > 0 && self.rng.chance(pp, 256) {
            cx.waker().wake_by_ref();
            return Poll::Pending;
        }
        let rem = buf.remaining();
        let mut tmp = vec![0u8; rem.min(self.core.next_limit().max(1))];
        if rem == 0 {
            tmp.clear();
        }
        let n = self.core.do_read(&mut tmp)?;
        buf.put_slice(&tmp[..n]);
        Poll::Ready(Ok(()))
    }
}

impl AsyncWrite for AsyncChunkReader {
    fn poll_write(self: Pin<&mut Self>, _cx: &mut Context<'_>, buf: &[u8]) -> Poll<io::Result<usize>> {
        Poll::Ready(Ok(buf.len()))
    }
    fn poll_flush(self: Pin<&mut Self>, _cx: &mut Context<'_>) -> Poll<io::Result<()>> {
        Poll::Ready(Ok(()))
    }
    fn poll_shutdown(self: Pin<&mut Self>, _cx: &mut Context<'_>) -> Poll<io::Result<()>> {
        Poll::Ready(Ok(()))
    }
}

/// Busy-poll executor for futures whose only suspension is our own spurious `Pending`.
pub fn spin_block_on<F: Future>(fut: F) -> F::Output {
    let mut cx = Context::from_waker(Waker::noop());
    let mut fut = std::pin::pin!(fut);
    let mut polls = 0u64;
    loop {
        if let Poll::Ready(v) = fut.as_mut().poll(&mut cx) {
            return v;
        }
        polls += 1;
        if polls > 50_000_000 {
            panic!("VERIF-SPIN-LIMIT");
        }
    }
}

pub fn response_to_d(r: &Response) -> DResponse {
    let mut frames = Vec::new();
    let mut error = None;
    for f in r.frames() {
        match f {
            Ok(f) => frames.push(DFrame {
                fields: f.fields().map(|(k, v)| (k.to_string(), v.to_string())).collect(),
                binary: f.binary().map(|b| b.to_vec()),
            }),
            Err(e) => {
                error = Some(AError {
                    code: e.code,
                    index: e.command_index,
                    command: e.current_command.as_ref().map(|c| c.to_string()),
                    message: e.message.to_string(),
                })
            }
        }
    }
    DResponse { frames, error }
}

pub fn frame_to_d(f: &mpd_protocol::response::Frame) -> DFrame {
    DFrame { fields: f.fields().map(|(k, v)| (k.to_string(), v.to_string())).collect(), binary: f.binary().map(|b| b.to_vec()) }
}

pub fn err_to_item(e: &MpdProtocolError) -> Item {
    match e {
        MpdProtocolError::InvalidMessage => Item::ErrInvalid,
        MpdProtocolError::Io(e) if e.kind() == io::ErrorKind::UnexpectedEof => Item::ErrEof,
        MpdProtocolError::Io(e) => Item::ErrIo(format!("{:?}", e.kind())),
    }
}

#[derive(Debug, Default)]
pub struct RunOut {
    pub items: Vec<Item>,
    pub version: Option<String>,
    pub stats: ReadStats,
    pub probe_count: usize,
    pub hook_violations: Vec<String>,
    pub buffer_growths: usize,
    /// the real responses, kept alive by the caller if it wants (C02 Miri stage keeps frames alive)
    pub responses_kept: usize,
    /// results of the extra receive calls made after the terminal item (see `AFTER_TERMINAL`)
    pub after_terminal: Vec<Item>,
}

#[derive(Clone, Copy, Debug, PartialEq, Eq)]
pub enum Flavour {
    Sync,
    Async,
}

impl Flavour {
    pub fn name(self) -> &'static str {
        match self {
            Flavour::Sync => "blocking",
            Flavour::Async => "async",
        }
    }
}

pub struct RunSpec<'a> {
    pub greeting: &'a [u8],
    pub body: &'a [u8],
    pub seg: &'a Seg,
    pub end: StreamEnd,
    pub flavour: Flavour,
    /// spurious-Pending probability (x/256), async only
    pub pending_p: u32,
    pub pending_seed: u64,
    pub max_responses: usize,
    /// keep returned responses alive until the end of the run (buffer sharing)
    pub keep_alive: bool,
}

thread_local! {
    /// The first N receive steps of the next run go through `command()` / `command_list()` (send +
    /// receive) instead of `receive()`. Set by the caller right before `run` (kept out of `RunSpec` so
    /// that the many existing construction sites stay unchanged).
    pub static VIA_COMMAND: std::cell::Cell<usize> = const { std::cell::Cell::new(0) };
    /// After the terminal item (error or clean end) of the next run, call `receive()` this many more times and
    /// record what comes back in `RunOut::after_terminal` (an application that logs an error and receives again).
    /// The hook monitor is frozen for these calls: nothing is specified about them except that they return.
    pub static AFTER_TERMINAL: std::cell::Cell<usize> = const { std::cell::Cell::new(0) };
}

/// Hook monitor state for one run.
struct HookMon {
    frozen: bool,
    fed_at_freeze: Option<usize>,
    probes: usize,
    violations: Vec<String>,
    buffered: Option<usize>,
    consumed: usize,
    read_total: usize,
    last_buf_len: Option<usize>,
    growths: usize,
}

impl HookMon {
    fn on(&mut self, p: mpd_protocol::verif_hooks::Probe) {
        use mpd_protocol::verif_hooks::Probe;
        if self.frozen {
            return;
        }
        self.probes += 1;
        match p {
            Probe::Parsed { before, after, .. } => {
                if let Some(b) = self.buffered {
                    if b != before {
                        self.v(format!("parse step saw {} buffered bytes, previous step left {}", before, b));
                    }
                }
                if after > before {
                    self.v(format!("parse step grew the buffered bytes {} -> {}", before, after));
                } else {
                    self.consumed += before - after;
                }
                self.buffered = Some(after);
            }
            Probe::BeforeRead { is_async, buffered, buf_len } => {
                if let Some(b) = self.buffered {
                    if b != buffered {
                        self.v(format!("read starts with {} buffered bytes, parse step left {}", buffered, b));
                    }
                }
                if !is_async {
                    if buffered >= buf_len {
                        self.v(format!("blocking read issued with no room: buffered {} >= buffer length {}", buffered, buf_len));
                    }
                    if let Some(l) = self.last_buf_len {
                        if buf_len > l {
                            self.growths += 1;
                        }
                    }
                    self.last_buf_len = Some(buf_len);
                }
                self.buffered = Some(buffered);
            }
            Probe::AfterRead { read, buffered, .. } => {
                if let Some(b) = self.buffered {
                    if b + read != buffered {
                        self.v(format!("after reading {} bytes buffered is {}, expected {}", read, buffered, b + read));
                    }
                }
                self.read_total += read;
                self.buffered = Some(buffered);
            }
        }
    }
    fn v(&mut self, m: String) {
        if self.violations.len() < 4 {
            self.violations.push(m);
        }
    }
}

/// Run one connection over one stream. Never panics itself: library panics become `Item::Panic`.
pub fn run(spec: &RunSpec<'_>) -> RunOut {
    let stats = Rc::new(RefCell::new(ReadStats::default()));
    let mon = Rc::new(RefCell::new(HookMon { frozen: false, fed_at_freeze: None, probes: 0, violations: vec![], buffered: None, consumed: 0, read_total: 0, last_buf_len: None, growths: 0 }));
    {
        let m = mon.clone();
        mpd_protocol::verif_hooks::set_sink(Some(Box::new(move |p| m.borrow_mut().on(p))));
    }
    let mut out = RunOut::default();
    let after_terminal = AFTER_TERMINAL.with(|v| v.replace(0));
    let core = Core::new(spec.greeting, spec.body, spec.seg, spec.end.clone(), stats.clone());
    let reset_call = |stats: &Rc<RefCell<ReadStats>>| {
        let mut s = stats.borrow_mut();
        s.zero_reads_in_call = 0;
        s.reads_in_call = 0;
    };

    match spec.flavour {
        Flavour::Sync => {
            reset_call(&stats);
            let conn = panics::catch(|| Connection::connect(ChunkReader(core)));
            match conn {
                Err(p) => out.items.push(Item::ConnectErr(Box::new(Item::Panic(p.0)))),
                Ok(Err(e)) => out.items.push(Item::ConnectErr(Box::new(err_to_item(&e)))),
                Ok(Ok(mut conn)) => {
                    out.version = Some(conn.protocol_version().to_string());
                    let mut kept = Vec::new();
                    let mut via = VIA_COMMAND.with(|v| v.replace(0));
                    loop {
                        reset_call(&stats);
                        let r = panics::catch(|| {
                            if via > 0 {
                                via -= 1;
                                // a close without a response is reported as an error by these shorthands; the
                                // callers only use them where a response is expected
                                if via % 2 == 0 {
                                    conn.command(mpd_protocol::Command::new("ping")).map(Some)
                                } else {
                                    conn.command_list(mpd_protocol::CommandList::new(mpd_protocol::Command::new("ping")).command(mpd_protocol::Command::new("status"))).map(Some)
                                }
                            } else {
                                conn.receive()
                            }
                        });
                        let item = match r {
                            Err(p) => Item::Panic(p.0),
                            Ok(Ok(Some(resp))) => {
                                let d = response_to_d(&resp);
                                if spec.keep_alive {
                                    kept.push(resp);
                                }
                                Item::Resp(d)
                            }
                            Ok(Ok(None)) => Item::CleanEnd,
                            Ok(Err(e)) => err_to_item(&e),
                        };
                        let term = item.is_terminal();
                        out.items.push(item);
                        if term || out.items.len() >= spec.max_responses {
                            if term {
                                {
                                    let fed = stats.borrow().fed;
                                    let mut m = mon.borrow_mut();
                                    m.frozen = true;
                                    m.fed_at_freeze = Some(fed);
                                }
                                for _ in 0..after_terminal {
                                    reset_call(&stats);
                                    out.after_terminal.push(match panics::catch(|| conn.receive()) {
                                        Err(p) => Item::Panic(p.0),
                                        Ok(Ok(Some(resp))) => Item::Resp(response_to_d(&resp)),
                                        Ok(Ok(None)) => Item::CleanEnd,
                                        Ok(Err(e)) => err_to_item(&e),
                                    });
                                }
                            }
                            break;
                        }
                    }
                    // responses kept alive across receive calls must be unchanged at the end
                    out.responses_kept = kept.len();
                    for (i, resp) in kept.iter().enumerate() {
                        if let Some(Item::Resp(d)) = out.items.get(i) {
                            if &response_to_d(resp) != d {
                                mon.borrow_mut().v(format!("response {} changed after later receive calls (shared buffer corruption)", i));
                            }
                        }
                    }
                }
            }
        }
        Flavour::Async => {
            let reader = AsyncChunkReader { core, rng: Rng::new(spec.pending_seed), pending_p: spec.pending_p };
            reset_call(&stats);
            let conn = panics::catch(|| spin_block_on(AsyncConnection::connect(reader)));
            match conn {
                Err(p) => out.items.push(Item::ConnectErr(Box::new(Item::Panic(p.0)))),
                Ok(Err(e)) => out.items.push(Item::ConnectErr(Box::new(err_to_item(&e)))),
                Ok(Ok(mut conn)) => {
                    out.version = Some(conn.protocol_version().to_string());
                    let mut kept = Vec::new();
                    let mut via = VIA_COMMAND.with(|v| v.replace(0));
                    loop {
                        reset_call(&stats);
                        let r = panics::catch(|| {
                            if via > 0 {
                                via -= 1;
                                if via % 2 == 0 {
                                    spin_block_on(conn.command(mpd_protocol::Command::new("ping"))).map(Some)
                                } else {
                                    spin_block_on(conn.command_list(mpd_protocol::CommandList::new(mpd_protocol::Command::new("ping")).command(mpd_protocol::Command::new("status")))).map(Some)
                                }
                            } else {
                                spin_block_on(conn.receive())
                            }
                        });
                        let item = match r {
                            Err(p) => Item::Panic(p.0),
                            Ok(Ok(Some(resp))) => {
                                let d = response_to_d(&resp);
                                if spec.keep_alive {
                                    kept.push(resp);
                                }
                                Item::Resp(d)
                            }
                            Ok(Ok(None)) => Item::CleanEnd,
                            Ok(Err(e)) => err_to_item(&e),
                        };
                        let term = item.is_terminal();
                        out.items.push(item);
                        if term || out.items.len() >= spec.max_responses {
                            if term {
                                {
                                    let fed = stats.borrow().fed;
                                    let mut m = mon.borrow_mut();
                                    m.frozen = true;
                                    m.fed_at_freeze = Some(fed);
                                }
                                for _ in 0..after_terminal {
                                    reset_call(&stats);
                                    out.after_terminal.push(match panics::catch(|| spin_block_on(conn.receive())) {
                                        Err(p) => Item::Panic(p.0),
                                        Ok(Ok(Some(resp))) => Item::Resp(response_to_d(&resp)),
                                        Ok(Ok(None)) => Item::CleanEnd,
                                        Ok(Err(e)) => err_to_item(&e),
                                    });
                                }
                            }
                            break;
                        }
                    }
                    out.responses_kept = kept.len();
                    for (i, resp) in kept.iter().enumerate() {
                        if let Some(Item::Resp(d)) = out.items.get(i) {
                            if &response_to_d(resp) != d {
                                mon.borrow_mut().v(format!("response {} changed after later receive calls (shared buffer corruption)", i));
                            }
                        }
                    }
                }
            }
        }
    }
    mpd_protocol::verif_hooks::set_sink(None);
    let st = std::mem::take(&mut *stats.borrow_mut());
    let mut m = mon.borrow_mut();
    // conservation: bytes the reader handed out after the greeting = consumed by responses + still buffered
    // (only meaningful if connect succeeded and no panic cut the run short)
    let connected = out.version.is_some();
    let panicked = out.items.iter().any(|i| matches!(i, Item::Panic(_)));
    if connected && !panicked && m.probes > 0 {
        let fed_body = m.fed_at_freeze.unwrap_or(st.fed).saturating_sub(spec.greeting.len());
        if m.read_total != fed_body {
            let msg = format!("reads accounted by the connection {} != bytes handed out by the transport {}", m.read_total, fed_body);
            m.v(msg);
        }
        // After an InvalidMessage error the parse probe of the failing step is not emitted; the
        // conservation equation is only checked when the run did not end in a parse error.
        let ended_invalid = matches!(out.items.last(), Some(Item::ErrInvalid));
        if !ended_invalid {
            if let Some(b) = m.buffered {
                if m.consumed + b != fed_body {
                    let msg = format!("conservation: consumed {} + buffered {} != fed {}", m.consumed, b, fed_body);
                    m.v(msg);
                }
            }
        }
    }
    out.probe_count = m.probes;
    out.hook_violations = std::mem::take(&mut m.violations);
    out.buffer_growths = m.growths;
    out.stats = st;
    out
}

/// Parse a well-formed body with the real blocking connection and hand out the real responses.
pub fn parse_all(body: &[u8]) -> Result<Vec<Response>, String> {
    let stats = Rc::new(RefCell::new(ReadStats::default()));
    let core = Core::new(GREETING, body, &Seg::Whole, StreamEnd::Eof, stats);
    let mut conn = Connection::connect(ChunkReader(core)).map_err(|e| format!("connect: {:?}", e))?;
    let mut out = Vec::new();
    loop {
        match conn.receive() {
            Ok(Some(r)) => out.push(r),
            Ok(None) => return Ok(out),
            Err(e) => return Err(format!("receive: {:?} after {} responses", e, out.len())),
        }
    }
}

/// Frames of a list response built from abstract frames (through the real parser).
pub fn frames_via_parser(frames: &[crate::refmodel::wire::AFrame]) -> Result<Vec<mpd_protocol::response::Frame>, String> {
    if frames.is_empty() {
        return Ok(Vec::new());
    }
    let r = crate::refmodel::wire::AResponse { frames: frames.to_vec(), error: None, form: crate::refmodel::wire::Form::List, partial: None };
    let mut rs = parse_all(&r.encode())?;
    if rs.len() != 1 {
        return Err(format!("expected one response, got {}", rs.len()));
    }
    let resp = rs.pop().unwrap();
    let mut out = Vec::new();
    for f in resp {
        match f {
            Ok(f) => out.push(f),
            Err(e) => return Err(format!("unexpected error frame {:?}", e)),
        }
    }
    if out.len() != frames.len() {
        return Err(format!("parser produced {} frames for {} encoded", out.len(), frames.len()));
    }
    Ok(out)
}
