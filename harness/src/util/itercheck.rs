//! Conformance of an iterator type with the sequence its plain `next()` iteration yields.
//!
//! The provided methods of `Iterator` / `DoubleEndedIterator` (`nth`, `nth_back`, `last`, `count`, `size_hint`,
//! `fold`, and through them `skip`, `step_by`, `rev`, `take`, `collect`) may be overridden by an implementation.
//! Whatever it does, each of them must agree with the same method applied to the model sequence, also when it
//! overshoots the end, and also on an iterator that has already been advanced from either end. Panics are left to
//! the caller's `catch_unwind`.

use crate::util::rng::Rng;

fn cmp<T: PartialEq + std::fmt::Debug>(what: String, got: T, want: T) -> Result<(), String> {
    if got == want {
        Ok(())
    } else {
        let g = format!("{:?}", got);
        let w = format!("{:?}", want);
        Err(format!("{} gave {} where plain iteration gives {}", what, g.chars().take(200).collect::<String>(), w.chars().take(200).collect::<String>()))
    }
}

/// Forward-only part. `mk` makes a fresh iterator over the same data, `f` converts an item to the model's item type
/// (applied LAST, so that an overridden method is really the one that runs), `model` is what `next()` yields.
pub fn forward<T, I>(what: &str, r: &mut Rng, mk: &dyn Fn() -> I, f: &dyn Fn(I::Item) -> T, model: &[T]) -> Result<(), String>
where
    T: PartialEq + std::fmt::Debug + Clone,
    I: Iterator,
{
    let n = model.len();
    let m = || model.iter().cloned();
    // size_hint brackets what is left, at every step
    {
        let mut it = mk();
        for left in (0..=n).rev() {
            let (lo, hi) = it.size_hint();
            if lo > left || hi.map_or(false, |h| h < left) {
                return Err(format!("{}.size_hint() = ({}, {:?}) with {} items left", what, lo, hi, left));
            }
            if left > 0 {
                cmp(format!("{}.next() [step {}]", what, n - left), it.next().map(f), Some(model[n - left].clone()))?;
            }
        }
        cmp(format!("{}.next() after the end", what), it.next().map(f), None)?;
        cmp(format!("{}.next() after the end, again", what), it.next().map(f), None)?;
    }
    for k in [0, 1, r.below(n + 3), n.saturating_sub(1), n, n + 1, n + 7] {
        {
            let (mut a, mut b) = (mk(), m());
            cmp(format!("{}.nth({})", what, k), a.nth(k).map(f), b.nth(k))?;
            cmp(format!("{}.nth({}) then next()", what, k), a.next().map(f), b.next())?;
            cmp(format!("{}.nth({}) then count()", what, k), a.count(), b.count())?;
        }
        cmp(format!("{}.skip({}).collect()", what, k), mk().skip(k).map(f).collect::<Vec<_>>(), m().skip(k).collect::<Vec<_>>())?;
        cmp(format!("{}.step_by({}).collect()", what, k + 1), mk().step_by(k + 1).map(f).collect::<Vec<_>>(), m().step_by(k + 1).collect::<Vec<_>>())?;
        cmp(format!("{}.take({}).last()", what, k), mk().take(k).last().map(f), m().take(k).last())?;
        cmp(format!("{}.skip({}).last()", what, k), mk().skip(k).last().map(f), m().skip(k).last())?;
        // after k plain steps
        if k <= n {
            let (mut a, mut b) = (mk(), m());
            for _ in 0..k {
                let _ = a.next();
                let _ = b.next();
            }
            {
                let mut a2 = mk();
                for _ in 0..k {
                    let _ = a2.next();
                }
                cmp(format!("{} advanced {} times, then count()", what, k), a2.count(), n - k)?;
            }
            cmp(format!("{} advanced {} times, then last()", what, k), a.last().map(f), b.last())?;
            let (mut a, mut b) = (mk(), m());
            for _ in 0..k {
                let _ = a.next();
                let _ = b.next();
            }
            cmp(format!("{} advanced {} times, then nth(1)", what, k), a.nth(1).map(f), b.nth(1))?;
            cmp(format!("{} advanced {} times, nth(1), then collect()", what, k), a.map(f).collect::<Vec<_>>(), b.collect::<Vec<_>>())?;
        }
    }
    cmp(format!("{}.count()", what), mk().count(), n)?;
    cmp(format!("{}.last()", what), mk().last().map(f), m().last())?;
    cmp(format!("{}.fold()", what), mk().fold(0usize, |a, _| a + 1), n)?;
    cmp(format!("{}.collect()", what), mk().map(f).collect::<Vec<_>>(), m().collect::<Vec<_>>())?;
    cmp(format!("{}.collect::<Vec<_>>().len()", what), mk().collect::<Vec<_>>().len(), n)?;
    cmp(format!("{}.enumerate().last()", what), mk().enumerate().last().map(|(i, x)| (i, f(x))), m().enumerate().last())?;
    Ok(())
}

/// Double-ended part (run in addition to `forward`).
pub fn double_ended<T, I>(what: &str, r: &mut Rng, mk: &dyn Fn() -> I, f: &dyn Fn(I::Item) -> T, model: &[T]) -> Result<(), String>
where
    T: PartialEq + std::fmt::Debug + Clone,
    I: DoubleEndedIterator,
{
    let n = model.len();
    let m = || model.iter().cloned();
    for k in [0, 1, r.below(n + 3), n.saturating_sub(1), n, n + 1, n + 7] {
        {
            let (mut a, mut b) = (mk(), m());
            cmp(format!("{}.nth_back({})", what, k), a.nth_back(k).map(f), b.nth_back(k))?;
            cmp(format!("{}.nth_back({}) then next_back()", what, k), a.next_back().map(f), b.next_back())?;
            cmp(format!("{}.nth_back({}) then next()", what, k), a.next().map(f), b.next())?;
            cmp(format!("{}.nth_back({}) ... then collect()", what, k), a.map(f).collect::<Vec<_>>(), b.collect::<Vec<_>>())?;
        }
        {
            let (mut a, mut b) = (mk(), m());
            cmp(format!("{}.nth({})", what, k), a.nth(k).map(f), b.nth(k))?;
            cmp(format!("{}.nth({}) then next_back()", what, k), a.next_back().map(f), b.next_back())?;
            cmp(format!("{}.nth({}) then nth_back(1)", what, k), a.nth_back(1).map(f), b.nth_back(1))?;
        }
        cmp(format!("{}.rev().skip({}).collect()", what, k), mk().rev().skip(k).map(f).collect::<Vec<_>>(), m().rev().skip(k).collect::<Vec<_>>())?;
        cmp(format!("{}.rev().nth({})", what, k), mk().rev().nth(k).map(f), m().rev().nth(k))?;
        cmp(format!("{}.rev().step_by({}).collect()", what, k + 1), mk().rev().step_by(k + 1).map(f).collect::<Vec<_>>(), m().rev().step_by(k + 1).collect::<Vec<_>>())?;
    }
    cmp(format!("{}.rev().collect()", what), mk().rev().map(f).collect::<Vec<_>>(), m().rev().collect::<Vec<_>>())?;
    cmp(format!("{}.rev().last()", what), mk().rev().last().map(f), m().rev().last())?;
    cmp(format!("{}.rfold()", what), mk().rfold(0usize, |a, _| a + 1), n)?;
    // random walk from both ends
    let (mut a, mut b) = (mk(), m());
    for step in 0..n + 3 {
        let (lo, hi) = a.size_hint();
        let left = b.len();
        if lo > left || hi.map_or(false, |h| h < left) {
            return Err(format!("{}.size_hint() = ({}, {:?}) with {} items left (step {} of a walk from both ends)", what, lo, hi, left, step));
        }
        if r.chance(1, 2) {
            cmp(format!("{}.next() [walk step {}]", what, step), a.next().map(f), b.next())?;
        } else {
            cmp(format!("{}.next_back() [walk step {}]", what, step), a.next_back().map(f), b.next_back())?;
        }
    }
    Ok(())
}

/// `ExactSizeIterator::len()` at every step, and the adaptors that rely on it (`skip(k).next_back()`, `rposition`,
/// `enumerate().rev()`).
pub fn exact_size<T, I>(what: &str, mk: &dyn Fn() -> I, f: &dyn Fn(I::Item) -> T, model: &[T]) -> Result<(), String>
where
    T: PartialEq + std::fmt::Debug + Clone,
    I: ExactSizeIterator + DoubleEndedIterator,
{
    let n = model.len();
    let m = || model.iter().cloned();
    let mut it = mk();
    for left in (0..=n).rev() {
        if it.len() != left {
            return Err(format!("{}.len() = {} with {} items left", what, it.len(), left));
        }
        if left % 2 == 0 {
            let _ = it.next();
        } else {
            let _ = it.next_back();
        }
    }
    for k in [0, 1, n / 2, n.saturating_sub(1), n, n + 1] {
        cmp(format!("{}.skip({}).next_back()", what, k), mk().skip(k).next_back().map(f), m().skip(k).next_back())?;
        cmp(format!("{}.skip({}).rev().collect()", what, k), mk().skip(k).rev().map(f).collect::<Vec<_>>(), m().skip(k).rev().collect::<Vec<_>>())?;
        cmp(format!("{}.take({}).rev().collect()", what, k), mk().take(k).rev().map(f).collect::<Vec<_>>(), m().take(k).rev().collect::<Vec<_>>())?;
    }
    cmp(format!("{}.enumerate().rev().collect()", what), mk().enumerate().rev().map(|(i, x)| (i, f(x))).collect::<Vec<_>>(), m().enumerate().rev().collect::<Vec<_>>())?;
    cmp(format!("{}.rposition(always)", what), mk().rposition(|_| true), m().rposition(|_| true))?;
    Ok(())
}
