//! Minimal JSON value + writer (and a tiny reader for replay files).

use std::fmt::Write;

#[derive(Clone, Debug, PartialEq)]
pub enum J {
    Null,
    Bool(bool),
    Int(i128),
    Num(f64),
    Str(String),
    Arr(Vec<J>),
    Obj(Vec<(String, J)>),
}

impl J {
    pub fn obj() -> J {
        J::Obj(Vec::new())
    }
    pub fn set(mut self, k: &str, v: impl Into<J>) -> J {
        self.put(k, v);
        self
    }
    pub fn put(&mut self, k: &str, v: impl Into<J>) {
        if let J::Obj(o) = self {
            let v = v.into();
            if let Some(e) = o.iter_mut().find(|(kk, _)| kk == k) {
                e.1 = v;
            } else {
                o.push((k.to_string(), v));
            }
        }
    }
    pub fn get(&self, k: &str) -> Option<&J> {
        match self {
            J::Obj(o) => o.iter().find(|(kk, _)| kk == k).map(|(_, v)| v),
            _ => None,
        }
    }
    pub fn as_str(&self) -> Option<&str> {
        match self {
            J::Str(s) => Some(s),
            _ => None,
        }
    }
    pub fn as_i(&self) -> Option<i128> {
        match self {
            J::Int(i) => Some(*i),
            J::Num(n) => Some(*n as i128),
            _ => None,
        }
    }
    /// Lossy rendering of bytes as a string for human-readable samples.
    pub fn bytes(b: &[u8]) -> J {
        let mut s = String::new();
        for &c in b {
            match c {
                b'\n' => s.push_str("\\n"),
                b'\r' => s.push_str("\\r"),
                b'\t' => s.push_str("\\t"),
                b'\\' => s.push_str("\\\\"),
                0x20..=0x7e => s.push(c as char),
                _ => {
                    let _ = write!(s, "\\x{:02x}", c);
                }
            }
        }
        J::Str(s)
    }
    pub fn hex(b: &[u8]) -> J {
        let mut s = String::with_capacity(b.len() * 2);
        for &c in b {
            let _ = write!(s, "{:02x}", c);
        }
        J::Str(s)
    }

    pub fn render(&self) -> String {
        let mut out = String::new();
        self.write(&mut out, 0, true);
        out
    }
    pub fn render_compact(&self) -> String {
        let mut out = String::new();
        self.write(&mut out, 0, false);
        out
    }

    fn write(&self, out: &mut String, ind: usize, pretty: bool) {
        match self {
            J::Null => out.push_str("null"),
            J::Bool(b) => out.push_str(if *b { "true" } else { "false" }),
            J::Int(i) => {
                let _ = write!(out, "{}", i);
            }
            J::Num(n) => {
                if n.is_finite() {
                    let _ = write!(out, "{}", n);
                } else {
                    out.push_str("null");
                }
            }
            J::Str(s) => write_str(out, s),
            J::Arr(a) => {
                if a.is_empty() {
                    out.push_str("[]");
                    return;
                }
                out.push('[');
                for (i, v) in a.iter().enumerate() {
                    if i > 0 {
                        out.push(',');
                    }
                    if pretty {
                        out.push('\n');
                        for _ in 0..ind + 1 {
                            out.push(' ');
                        }
                    }
                    v.write(out, ind + 1, pretty);
                }
                if pretty {
                    out.push('\n');
                    for _ in 0..ind {
                        out.push(' ');
                    }
                }
                out.push(']');
            }
            J::Obj(o) => {
                if o.is_empty() {
                    out.push_str("{}");
                    return;
                }
                out.push('{');
                for (i, (k, v)) in o.iter().enumerate() {
                    if i > 0 {
                        out.push(',');
                    }
                    if pretty {
                        out.push('\n');
                        for _ in 0..ind + 1 {
                            out.push(' ');
                        }
                    }
                    write_str(out, k);
                    out.push(':');
                    if pretty {
                        out.push(' ');
                    }
                    v.write(out, ind + 1, pretty);
                }
                if pretty {
                    out.push('\n');
                    for _ in 0..ind {
                        out.push(' ');
                    }
                }
                out.push('}');
            }
        }
    }
}

fn write_str(out: &mut String, s: &str) {
    out.push('"');
    for c in s.chars() {
        match c {
            '"' => out.push_str("\\\""),
            '\\' => out.push_str("\\\\"),
            '\n' => out.push_str("\\n"),
            '\r' => out.push_str("\\r"),
            '\t' => out.push_str("\\t"),
            c if (c as u32) < 0x20 => {
                let _ = write!(out, "\\u{:04x}", c as u32);
            }
            c => out.push(c),
        }
    }
    out.push('"');
}

impl From<bool> for J {
    fn from(b: bool) -> J {
        J::Bool(b)
    }
}
impl From<&str> for J {
    fn from(s: &str) -> J {
        J::Str(s.to_string())
    }
}
impl From<String> for J {
    fn from(s: String) -> J {
        J::Str(s)
    }
}
impl From<&String> for J {
    fn from(s: &String) -> J {
        J::Str(s.clone())
    }
}
impl From<f64> for J {
    fn from(n: f64) -> J {
        J::Num(n)
    }
}
macro_rules! from_int {
    ($($t:ty),*) => {$(impl From<$t> for J { fn from(i: $t) -> J { J::Int(i as i128) } })*};
}
from_int!(u8, u16, u32, u64, usize, i32, i64, i128, u128);
impl<T: Into<J>> From<Vec<T>> for J {
    fn from(v: Vec<T>) -> J {
        J::Arr(v.into_iter().map(Into::into).collect())
    }
}
impl<T: Into<J>> From<Option<T>> for J {
    fn from(v: Option<T>) -> J {
        match v {
            Some(x) => x.into(),
            None => J::Null,
        }
    }
}

// ---------------------------------------------------------------------------------------------
// Tiny recursive-descent reader (enough for replay files written by this module).

pub fn parse(s: &str) -> Result<J, String> {
    let b = s.as_bytes();
    let mut p = 0usize;
    let v = parse_value(b, &mut p)?;
    skip_ws(b, &mut p);
    if p != b.len() {
        return Err(format!("trailing data at {}", p));
    }
    Ok(v)
}

fn skip_ws(b: &[u8], p: &mut usize) {
    while *p < b.len() && matches!(b[*p], b' ' | b'\n' | b'\r' | b'\t') {
        *p += 1;
    }
}

fn parse_value(b: &[u8], p: &mut usize) -> Result<J, String> {
    skip_ws(b, p);
    if *p >= b.len() {
        return Err("eof".into());
    }
    match b[*p] {
        b'n' => lit(b, p, "null", J::Null),
        b't' => lit(b, p, "true", J::Bool(true)),
        b'f' => lit(b, p, "false", J::Bool(false)),
        b'"' => Ok(J::Str(parse_string(b, p)?)),
        b'[' => {
            *p += 1;
            let mut out = Vec::new();
            loop {
                skip_ws(b, p);
                if *p < b.len() && b[*p] == b']' {
                    *p += 1;
                    return Ok(J::Arr(out));
                }
                out.push(parse_value(b, p)?);
                skip_ws(b, p);
                if *p < b.len() && b[*p] == b',' {
                    *p += 1;
                }
            }
        }
        b'{' => {
            *p += 1;
            let mut out = Vec::new();
            loop {
                skip_ws(b, p);
                if *p < b.len() && b[*p] == b'}' {
                    *p += 1;
                    return Ok(J::Obj(out));
                }
                let k = parse_string(b, p)?;
                skip_ws(b, p);
                if *p >= b.len() || b[*p] != b':' {
                    return Err(format!("expected ':' at {}", p));
                }
                *p += 1;
                let v = parse_value(b, p)?;
                out.push((k, v));
                skip_ws(b, p);
                if *p < b.len() && b[*p] == b',' {
                    *p += 1;
                }
            }
        }
        _ => {
            let st = *p;
            while *p < b.len() && matches!(b[*p], b'-' | b'+' | b'.' | b'e' | b'E' | b'0'..=b'9') {
                *p += 1;
            }
            let t = std::str::from_utf8(&b[st..*p]).map_err(|e| e.to_string())?;
            if let Ok(i) = t.parse::<i128>() {
                Ok(J::Int(i))
            } else {
                t.parse::<f64>().map(J::Num).map_err(|e| format!("{} at {}", e, st))
            }
        }
    }
}

fn lit(b: &[u8], p: &mut usize, word: &str, v: J) -> Result<J, String> {
    if b[*p..].starts_with(word.as_bytes()) {
        *p += word.len();
        Ok(v)
    } else {
        Err(format!("bad literal at {}", p))
    }
}

fn parse_string(b: &[u8], p: &mut usize) -> Result<String, String> {
    if *p >= b.len() || b[*p] != b'"' {
        return Err(format!("expected string at {}", p));
    }
    *p += 1;
    let mut out = Vec::new();
    while *p < b.len() {
        match b[*p] {
            b'"' => {
                *p += 1;
                return String::from_utf8(out).map_err(|e| e.to_string());
            }
            b'\\' => {
                *p += 1;
                match b.get(*p) {
                    Some(b'n') => out.push(b'\n'),
                    Some(b'r') => out.push(b'\r'),
                    Some(b't') => out.push(b'\t'),
                    Some(b'u') => {
                        let h = std::str::from_utf8(&b[*p + 1..*p + 5]).map_err(|e| e.to_string())?;
                        let c = u32::from_str_radix(h, 16).map_err(|e| e.to_string())?;
                        let mut buf = [0u8; 4];
                        out.extend_from_slice(char::from_u32(c).unwrap_or('?').encode_utf8(&mut buf).as_bytes());
                        *p += 4;
                    }
                    Some(&c) => out.push(c),
                    None => return Err("eof in escape".into()),
                }
                *p += 1;
            }
            c => {
                out.push(c);
                *p += 1;
            }
        }
    }
    Err("unterminated string".into())
}

pub fn unhex(s: &str) -> Vec<u8> {
    (0..s.len() / 2).map(|i| u8::from_str_radix(&s[2 * i..2 * i + 2], 16).unwrap_or(0)).collect()
}
