pub mod acc;
pub mod itercheck;
pub mod json;
pub mod panics;
pub mod pool;
pub mod rng;
pub mod shard;
pub mod trace;

#[derive(Clone, Copy, Debug, PartialEq, Eq)]
pub enum Tier {
    Quick,
    Thorough,
}

impl Tier {
    pub fn name(self) -> &'static str {
        match self {
            Tier::Quick => "quick",
            Tier::Thorough => "thorough",
        }
    }
    /// Pick a size by tier.
    pub fn pick<T>(self, quick: T, thorough: T) -> T {
        match self {
            Tier::Quick => quick,
            Tier::Thorough => thorough,
        }
    }
}

#[derive(Clone, Debug)]
pub struct Cfg {
    pub property: String,
    pub tier: Tier,
    pub seed: u64,
    pub threads: usize,
    pub root: String,
    /// Replay a single case (property specific encoding).
    pub replay: Option<String>,
    /// Free-form extra arguments (child modes etc.).
    pub extra: Vec<String>,
    /// Path of the running executable (to spawn children).
    pub exe: String,
}

impl Cfg {
    pub fn extra_val(&self, key: &str) -> Option<&str> {
        let mut it = self.extra.iter();
        while let Some(a) = it.next() {
            if a == key {
                return it.next().map(|s| s.as_str());
            }
        }
        None
    }
    pub fn has_flag(&self, key: &str) -> bool {
        self.extra.iter().any(|a| a == key)
    }
}
