//! A `tracing` subscriber that enables every level and formats every field, then throws the text away.
//! An application may install a TRACE subscriber; the library's log statements (whose field expressions are only
//! evaluated when a subscriber is interested) are then part of the code that runs. A third of the cases run under it.

use std::fmt::Write;
use std::sync::atomic::{AtomicU64, Ordering};

use tracing::field::{Field, Visit};
use tracing::span;
use tracing::{Event, Metadata, Subscriber};

pub struct AllOn {
    next: AtomicU64,
}

impl AllOn {
    pub fn new() -> AllOn {
        AllOn { next: AtomicU64::new(1) }
    }
}

thread_local! {
    static EVENTS: std::cell::Cell<u64> = const { std::cell::Cell::new(0) };
}

/// number of events/spans formatted on this thread since the last call
pub fn take_count() -> u64 {
    EVENTS.with(|e| e.replace(0))
}

struct Sink(String);

impl Visit for Sink {
    fn record_debug(&mut self, _field: &Field, value: &dyn std::fmt::Debug) {
        self.0.clear();
        let _ = write!(self.0, "{:?}", value);
    }
}

impl Subscriber for AllOn {
    fn enabled(&self, _metadata: &Metadata<'_>) -> bool {
        true
    }
    fn new_span(&self, attrs: &span::Attributes<'_>) -> span::Id {
        attrs.record(&mut Sink(String::new()));
        EVENTS.with(|e| e.set(e.get() + 1));
        span::Id::from_u64(self.next.fetch_add(1, Ordering::Relaxed))
    }
    fn record(&self, _span: &span::Id, values: &span::Record<'_>) {
        values.record(&mut Sink(String::new()));
    }
    fn record_follows_from(&self, _span: &span::Id, _follows: &span::Id) {}
    fn event(&self, event: &Event<'_>) {
        event.record(&mut Sink(String::new()));
        EVENTS.with(|e| e.set(e.get() + 1));
    }
    fn enter(&self, _span: &span::Id) {}
    fn exit(&self, _span: &span::Id) {}
}

/// Run `f` with the subscriber installed for this thread if `on`.
pub fn scoped<R>(on: bool, f: impl FnOnce() -> R) -> R {
    if on {
        tracing::subscriber::with_default(AllOn::new(), f)
    } else {
        f()
    }
}
