//! Running a property's cases in child processes, so that an abort (allocation failure, stack
//! overflow, `process::abort`) inside the library is observed and attributed to a concrete case
//! instead of killing the monitor. Each child writes the index of the case it is about to run to
//! a write-ahead file.

use std::io::{Seek, Write};
use std::process::{Command, Stdio};
use std::time::{Duration, Instant};

use super::acc::Acc;
use super::json::{self, J};
use super::Cfg;

pub struct ShardSpec {
    pub shard: u64,
    pub of: u64,
    pub out: String,
    pub wal: String,
}

pub fn shard_spec(cfg: &Cfg) -> Option<ShardSpec> {
    let s = cfg.extra_val("--shard")?;
    let (a, b) = s.split_once('/')?;
    Some(ShardSpec { shard: a.parse().ok()?, of: b.parse().ok()?, out: cfg.extra_val("--shard-out")?.to_string(), wal: cfg.extra_val("--shard-wal")?.to_string() })
}

/// Child side: run cases `i` with `i % of == shard`, write the accumulator to `out`.
pub fn run_child(cfg: &Cfg, spec: &ShardSpec, n: u64, f: &dyn Fn(u64, &mut Acc)) -> i32 {
    let mut acc = Acc::new();
    let mut wal = match std::fs::OpenOptions::new().create(true).write(true).truncate(true).open(&spec.wal) {
        Ok(f) => f,
        Err(e) => {
            eprintln!("cannot open wal {}: {}", spec.wal, e);
            return 2;
        }
    };
    let _ = cfg;
    let mut i = spec.shard;
    while i < n {
        let _ = wal.seek(std::io::SeekFrom::Start(0));
        let _ = wal.write_all(format!("{:020}\n", i).as_bytes());
        let traced = i % 3 == 1;
        if let Err(p) = crate::util::panics::catch(|| crate::util::trace::scoped(traced, || f(i, &mut acc))) {
            acc.inconclusive(format!("harness panicked in case {}: {}", i, p.0));
        }
        if traced {
            acc.inc("cases_run_under_a_trace_subscriber");
            acc.count("trace_events_and_spans_formatted", crate::util::trace::take_count());
        }
        i += spec.of;
    }
    let _ = wal.seek(std::io::SeekFrom::Start(0));
    let _ = wal.write_all(b"done                \n");
    match std::fs::write(&spec.out, acc.to_json().render_compact()) {
        Ok(()) => 0,
        Err(e) => {
            eprintln!("cannot write shard output {}: {}", spec.out, e);
            2
        }
    }
}

/// Parent side: spawn `of` children of the same executable, merge their accumulators. A child that
/// dies without result is reported as a violation attributed to the case in its write-ahead file.
pub fn run_parent(cfg: &Cfg, of: u64, extra_args: &[String], hard_limit: Duration, exe: Option<&str>) -> Acc {
    let dir = std::env::temp_dir().join(format!("mpdverif-{}-{}", cfg.property, std::process::id()));
    let _ = std::fs::create_dir_all(&dir);
    let mut children = Vec::new();
    let start = Instant::now();
    for k in 0..of {
        let out = dir.join(format!("shard-{}.json", k));
        let wal = dir.join(format!("shard-{}.wal", k));
        let mut cmd = Command::new(exe.unwrap_or(&cfg.exe));
        cmd.arg("--property")
            .arg(&cfg.property)
            .arg("--tier")
            .arg(cfg.tier.name())
            .arg("--seed")
            .arg(cfg.seed.to_string())
            .arg("--root")
            .arg(&cfg.root)
            .arg("--threads")
            .arg("1")
            .arg("--shard")
            .arg(format!("{}/{}", k, of))
            .arg("--shard-out")
            .arg(&out)
            .arg("--shard-wal")
            .arg(&wal)
            .args(extra_args)
            .stdin(Stdio::null())
            .stdout(Stdio::null())
            .stderr(Stdio::piped());
        match cmd.spawn() {
            Ok(c) => children.push((k, c, out, wal)),
            Err(e) => {
                let mut a = Acc::new();
                a.inconclusive(format!("cannot spawn child: {}", e));
                return a;
            }
        }
    }
    let mut acc = Acc::new();
    for (k, mut c, out, wal) in children {
        // wait with watchdog
        let status = loop {
            match c.try_wait() {
                Ok(Some(st)) => break Some(st),
                Ok(None) => {
                    if start.elapsed() > hard_limit {
                        let _ = c.kill();
                        let _ = c.wait();
                        break None;
                    }
                    std::thread::sleep(Duration::from_millis(10));
                }
                Err(_) => break None,
            }
        };
        let mut stderr = String::new();
        if let Some(mut e) = c.stderr.take() {
            use std::io::Read;
            let _ = e.read_to_string(&mut stderr);
        }
        let walc = std::fs::read_to_string(&wal).unwrap_or_default();
        match status {
            None => acc.inconclusive(format!("shard {} exceeded the wall-clock watchdog ({:?}); last case {}", k, hard_limit, walc.trim())),
            Some(st) => {
                let parsed = std::fs::read_to_string(&out).ok().and_then(|t| json::parse(&t).ok());
                match parsed {
                    Some(j) if st.success() => acc.merge(Acc::from_json(&j)),
                    _ => {
                        // died without a result: abort / signal
                        let case: u64 = walc.trim().parse().unwrap_or(u64::MAX);
                        let tail: String = stderr.chars().rev().take(600).collect::<String>().chars().rev().collect();
                        acc.violation(
                            case,
                            None,
                            format!("child process died ({}) while running case {}: abort/crash inside the library", st, walc.trim()),
                            J::obj().set("exit_status", format!("{}", st)).set("stderr_tail", tail),
                        );
                    }
                }
            }
        }
        let _ = std::fs::remove_file(&out);
        let _ = std::fs::remove_file(&wal);
    }
    let _ = std::fs::remove_dir_all(&dir);
    acc
}
