//! Work distribution over OS threads with a wall-clock watchdog. The watchdog never produces a
//! violation: if it fires the run is INCONCLUSIVE (exit 2).

use std::sync::atomic::{AtomicBool, AtomicU64, Ordering};
use std::sync::{Arc, Mutex};
use std::time::{Duration, Instant};

use super::acc::Acc;

pub struct PoolResult {
    pub acc: Acc,
    pub timed_out: bool,
}

/// Run `n` cases on `threads` workers. `f(case_index, acc)`.
/// `soft_budget`: when elapsed, no *new* cases are started (the run reports how many were done;
/// used only by thorough sweeps that are sized by time). `hard_limit`: watchdog.
pub fn run_cases<F>(n: u64, threads: usize, hard_limit: Duration, f: F) -> PoolResult
where
    F: Fn(u64, &mut Acc) + Sync,
{
    let next = AtomicU64::new(0);
    let done_workers = AtomicU64::new(0);
    let abort = AtomicBool::new(false);
    let merged = Mutex::new(Acc::new());
    let start = Instant::now();
    let threads = threads.max(1);
    let current: Arc<Vec<AtomicU64>> = Arc::new((0..threads).map(|_| AtomicU64::new(u64::MAX)).collect());
    let mut timed_out = false;

    std::thread::scope(|s| {
        for w in 0..threads {
            let next = &next;
            let merged = &merged;
            let f = &f;
            let done_workers = &done_workers;
            let abort = &abort;
            let current = current.clone();
            std::thread::Builder::new()
                .stack_size(16 << 20)
                .spawn_scoped(s, move || {
                    let mut acc = Acc::new();
                    loop {
                        if abort.load(Ordering::Relaxed) {
                            break;
                        }
                        let i = next.fetch_add(1, Ordering::Relaxed);
                        if i >= n {
                            break;
                        }
                        current[w].store(i, Ordering::Relaxed);
                        // a panic of the harness itself is never a verdict
                        // every third case runs with a TRACE subscriber installed (see util/trace.rs)
                        let traced = i % 3 == 1;
                        if let Err(p) = crate::util::panics::catch(|| crate::util::trace::scoped(traced, || f(i, &mut acc))) {
                            acc.inconclusive(format!("harness panicked in case {}: {}", i, p.0));
                        }
                        if traced {
                            acc.inc("cases_run_under_a_trace_subscriber");
                            acc.count("trace_events_and_spans_formatted", crate::util::trace::take_count());
                        }
                    }
                    current[w].store(u64::MAX, Ordering::Relaxed);
                    merged.lock().unwrap().merge(acc);
                    done_workers.fetch_add(1, Ordering::SeqCst);
                })
                .expect("spawn worker");
        }
        // watchdog
        loop {
            if done_workers.load(Ordering::SeqCst) as usize == threads {
                break;
            }
            if start.elapsed() > hard_limit {
                let stuck: Vec<u64> = current.iter().map(|c| c.load(Ordering::Relaxed)).filter(|c| *c != u64::MAX).collect();
                println!(
                    "INCONCLUSIVE: wall-clock watchdog fired after {:?}; cases still running: {:?}",
                    hard_limit, stuck
                );
                // Threads cannot be killed; leave the process. Nothing here is a verdict.
                std::process::exit(2);
            }
            std::thread::sleep(Duration::from_millis(5));
        }
    });
    if abort.load(Ordering::Relaxed) {
        timed_out = true;
    }
    PoolResult { acc: merged.into_inner().unwrap(), timed_out }
}
