//! Quiet panic capture: a global hook records message + location per thread; `catch` runs a
//! closure under `catch_unwind` and returns the recorded information on panic.

use std::cell::RefCell;
use std::panic::{self, AssertUnwindSafe};
use std::sync::Once;

thread_local! {
    static LAST: RefCell<Option<String>> = const { RefCell::new(None) };
}

static INSTALL: Once = Once::new();

pub fn install_hook() {
    INSTALL.call_once(|| {
        let verbose = std::env::var("VERIF_DEBUG_PANICS").is_ok();
        let prev = panic::take_hook();
        panic::set_hook(Box::new(move |info| {
            let msg = if let Some(s) = info.payload().downcast_ref::<&str>() {
                s.to_string()
            } else if let Some(s) = info.payload().downcast_ref::<String>() {
                s.clone()
            } else {
                "<non-string panic payload>".to_string()
            };
            let loc = info.location().map(|l| format!("{}:{}", l.file(), l.line())).unwrap_or_default();
            LAST.with(|l| *l.borrow_mut() = Some(format!("{} @ {}", msg, loc)));
            if verbose {
                prev(info);
            }
        }));
    });
}

#[derive(Clone, Debug)]
pub struct Panicked(pub String);

pub fn catch<T>(f: impl FnOnce() -> T) -> Result<T, Panicked> {
    install_hook();
    LAST.with(|l| *l.borrow_mut() = None);
    match panic::catch_unwind(AssertUnwindSafe(f)) {
        Ok(v) => Ok(v),
        Err(_) => {
            let m = LAST.with(|l| l.borrow_mut().take()).unwrap_or_else(|| "<unknown panic>".into());
            Err(Panicked(m))
        }
    }
}

/// Take the message of a panic that happened on this thread outside `catch` (e.g. inside a
/// spawned tokio task, surfaced as a JoinError).
pub fn take_last() -> Option<String> {
    LAST.with(|l| l.borrow_mut().take())
}
