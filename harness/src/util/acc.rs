//! Accumulator of what a run observed: counters, distinct-case sets, samples, violations.
//! One per worker thread; merged deterministically afterwards.

use std::collections::{BTreeMap, HashSet};

use super::json::J;

#[derive(Clone, Debug)]
pub struct Violation {
    /// Case index (for deterministic ordering).
    pub case: u64,
    /// Signature of a known-finding *class* this failure falls into, if the property's classifier
    /// recognises it. Whether it is accepted is decided by KNOWN_FINDINGS.txt, not here.
    pub sig: Option<String>,
    pub summary: String,
    pub detail: J,
}

/// Bucket of a violation summary: the panic location if there is one, else the text up to the
/// first ':' (the kind of failure), so that stored examples cover distinct failure kinds.
fn bucket(summary: &str) -> String {
    if let Some(p) = summary.rfind(" @ ") {
        return summary[p..].chars().take(80).collect();
    }
    summary.split(':').next().unwrap_or("").chars().take(60).collect()
}

#[derive(Default, Debug)]
pub struct Acc {
    pub counters: BTreeMap<String, u64>,
    pub maxima: BTreeMap<String, u64>,
    pub distinct: BTreeMap<String, HashSet<u64>>,
    pub samples: Vec<(u64, J)>,
    pub violations: Vec<Violation>,
    pub violation_count: u64,
    pub sig_hits: BTreeMap<String, u64>,
    pub inconclusive: Vec<String>,
    /// extra coverage entries produced by auxiliary stages
    pub notes: Vec<(String, J)>,
    pub max_samples: usize,
    pub max_violations: usize,
}

impl Acc {
    pub fn new() -> Acc {
        Acc { max_samples: 6, max_violations: 12, ..Default::default() }
    }

    pub fn count(&mut self, key: &str, n: u64) {
        if let Some(c) = self.counters.get_mut(key) {
            *c += n;
        } else {
            self.counters.insert(key.to_string(), n);
        }
    }

    pub fn inc(&mut self, key: &str) {
        self.count(key, 1)
    }

    pub fn get(&self, key: &str) -> u64 {
        self.counters.get(key).copied().unwrap_or(0)
    }

    pub fn max(&mut self, key: &str, v: u64) {
        let e = self.maxima.entry(key.to_string()).or_insert(0);
        if v > *e {
            *e = v;
        }
    }

    pub fn distinct(&mut self, set: &str, h: u64) {
        if let Some(s) = self.distinct.get_mut(set) {
            s.insert(h);
        } else {
            let mut s = HashSet::new();
            s.insert(h);
            self.distinct.insert(set.to_string(), s);
        }
    }

    pub fn distinct_len(&self, set: &str) -> u64 {
        self.distinct.get(set).map(|s| s.len() as u64).unwrap_or(0)
    }

    pub fn want_sample(&self) -> bool {
        self.samples.len() < self.max_samples
    }

    pub fn sample(&mut self, case: u64, j: J) {
        if self.samples.len() < self.max_samples {
            self.samples.push((case, j));
        }
    }

    pub fn violation(&mut self, case: u64, sig: Option<&str>, summary: impl Into<String>, detail: J) {
        self.violation_count += 1;
        if let Some(s) = sig {
            *self.sig_hits.entry(s.to_string()).or_insert(0) += 1;
        }
        // keep a bounded number per (signature, bucket); the bucket diversifies the stored examples
        let summary: String = summary.into();
        let b = bucket(&summary);
        let same = self.violations.iter().filter(|v| v.sig.as_deref() == sig && bucket(&v.summary) == b).count();
        if same < 3 && self.violations.len() < 400 {
            self.violations.push(Violation { case, sig: sig.map(|s| s.to_string()), summary, detail });
        }
    }

    pub fn inconclusive(&mut self, why: impl Into<String>) {
        let w = why.into();
        if self.inconclusive.len() < 8 {
            self.inconclusive.push(w);
        }
    }

    pub fn merge(&mut self, other: Acc) {
        for (k, v) in other.counters {
            *self.counters.entry(k).or_insert(0) += v;
        }
        for (k, v) in other.maxima {
            let e = self.maxima.entry(k).or_insert(0);
            if v > *e {
                *e = v;
            }
        }
        for (k, v) in other.distinct {
            self.distinct.entry(k).or_default().extend(v);
        }
        for (k, v) in other.sig_hits {
            *self.sig_hits.entry(k).or_insert(0) += v;
        }
        self.samples.extend(other.samples);
        self.samples.sort_by_key(|(c, _)| *c);
        self.samples.truncate(self.max_samples.max(6));
        self.violation_count += other.violation_count;
        self.violations.extend(other.violations);
        self.violations.sort_by_key(|v| v.case);
        // bound per (signature, bucket)
        let mut per: BTreeMap<(Option<String>, String), usize> = BTreeMap::new();
        self.violations.retain(|v| {
            let e = per.entry((v.sig.clone(), bucket(&v.summary))).or_insert(0);
            *e += 1;
            *e <= 3
        });
        self.violations.truncate(400);
        for w in other.inconclusive {
            self.inconclusive(w);
        }
        self.notes.extend(other.notes);
    }

    pub fn counters_json(&self) -> J {
        let mut o = J::obj();
        for (k, v) in &self.counters {
            o.put(k, *v);
        }
        for (k, v) in &self.maxima {
            o.put(&format!("max_{}", k), *v);
        }
        for (k, v) in &self.distinct {
            o.put(&format!("distinct_{}", k), v.len() as u64);
        }
        o
    }
}

// ---------------------------------------------------------------------------------------------
// (De)serialisation, used to merge the accumulators of child processes.

impl Acc {
    pub fn to_json(&self) -> J {
        let mut c = J::obj();
        for (k, v) in &self.counters {
            c.put(k, *v);
        }
        let mut m = J::obj();
        for (k, v) in &self.maxima {
            m.put(k, *v);
        }
        let mut d = J::obj();
        for (k, v) in &self.distinct {
            d.put(k, J::Arr(v.iter().map(|x| J::Str(format!("{:x}", x))).collect()));
        }
        let mut sh = J::obj();
        for (k, v) in &self.sig_hits {
            sh.put(k, *v);
        }
        J::obj()
            .set("counters", c)
            .set("maxima", m)
            .set("distinct", d)
            .set("sig_hits", sh)
            .set("samples", J::Arr(self.samples.iter().map(|(c, j)| J::Arr(vec![J::Int(*c as i128), j.clone()])).collect()))
            .set(
                "violations",
                J::Arr(
                    self.violations
                        .iter()
                        .map(|v| J::obj().set("case", v.case).set("sig", v.sig.clone()).set("summary", v.summary.clone()).set("detail", v.detail.clone()))
                        .collect(),
                ),
            )
            .set("violation_count", self.violation_count)
            .set("inconclusive", J::Arr(self.inconclusive.iter().map(|s| J::Str(s.clone())).collect()))
    }

    pub fn from_json(j: &J) -> Acc {
        let mut a = Acc::new();
        if let Some(J::Obj(o)) = j.get("counters") {
            for (k, v) in o {
                a.counters.insert(k.clone(), v.as_i().unwrap_or(0) as u64);
            }
        }
        if let Some(J::Obj(o)) = j.get("maxima") {
            for (k, v) in o {
                a.maxima.insert(k.clone(), v.as_i().unwrap_or(0) as u64);
            }
        }
        if let Some(J::Obj(o)) = j.get("distinct") {
            for (k, v) in o {
                let mut set = HashSet::new();
                if let J::Arr(xs) = v {
                    for x in xs {
                        if let Some(s) = x.as_str() {
                            if let Ok(n) = u64::from_str_radix(s, 16) {
                                set.insert(n);
                            }
                        }
                    }
                }
                a.distinct.insert(k.clone(), set);
            }
        }
        if let Some(J::Obj(o)) = j.get("sig_hits") {
            for (k, v) in o {
                a.sig_hits.insert(k.clone(), v.as_i().unwrap_or(0) as u64);
            }
        }
        if let Some(J::Arr(xs)) = j.get("samples") {
            for x in xs {
                if let J::Arr(p) = x {
                    if p.len() == 2 {
                        a.samples.push((p[0].as_i().unwrap_or(0) as u64, p[1].clone()));
                    }
                }
            }
        }
        if let Some(J::Arr(xs)) = j.get("violations") {
            for x in xs {
                a.violations.push(Violation {
                    case: x.get("case").and_then(|c| c.as_i()).unwrap_or(0) as u64,
                    sig: x.get("sig").and_then(|s| s.as_str()).map(|s| s.to_string()),
                    summary: x.get("summary").and_then(|s| s.as_str()).unwrap_or("").to_string(),
                    detail: x.get("detail").cloned().unwrap_or(J::Null),
                });
            }
        }
        a.violation_count = j.get("violation_count").and_then(|c| c.as_i()).unwrap_or(0) as u64;
        if let Some(J::Arr(xs)) = j.get("inconclusive") {
            for x in xs {
                if let Some(s) = x.as_str() {
                    a.inconclusive.push(s.to_string());
                }
            }
        }
        a
    }
}
