//! Seeded PRNG (xoshiro256** seeded through SplitMix64). No external crates.

#[derive(Clone, Debug)]
pub struct Rng {
    s: [u64; 4],
}

pub fn splitmix(x: &mut u64) -> u64 {
    *x = x.wrapping_add(0x9E37_79B9_7F4A_7C15);
    let mut z = *x;
    z = (z ^ (z >> 30)).wrapping_mul(0xBF58_476D_1CE4_E5B9);
    z = (z ^ (z >> 27)).wrapping_mul(0x94D0_49BB_1331_11EB);
    z ^ (z >> 31)
}

/// Mix several integers into one 64-bit value (for keyed, recomputable randomness).
pub fn mix(parts: &[u64]) -> u64 {
    let mut h = 0x243F_6A88_85A3_08D3u64;
    for &p in parts {
        let mut x = h ^ p.wrapping_mul(0x9E37_79B9_7F4A_7C15);
        h = splitmix(&mut x);
    }
    h
}

/// FNV-1a over bytes, used for "distinct case" counting.
pub fn hash_bytes(b: &[u8]) -> u64 {
    let mut h = 0xcbf2_9ce4_8422_2325u64;
    for &x in b {
        h ^= x as u64;
        h = h.wrapping_mul(0x0000_0100_0000_01B3);
    }
    h
}

impl Rng {
    pub fn new(seed: u64) -> Rng {
        let mut x = seed;
        let s = [splitmix(&mut x), splitmix(&mut x), splitmix(&mut x), splitmix(&mut x)];
        Rng { s }
    }

    pub fn keyed(parts: &[u64]) -> Rng {
        Rng::new(mix(parts))
    }

    pub fn next_u64(&mut self) -> u64 {
        let result = self.s[1].wrapping_mul(5).rotate_left(7).wrapping_mul(9);
        let t = self.s[1] << 17;
        self.s[2] ^= self.s[0];
        self.s[3] ^= self.s[1];
        self.s[1] ^= self.s[2];
        self.s[0] ^= self.s[3];
        self.s[2] ^= t;
        self.s[3] = self.s[3].rotate_left(45);
        result
    }

    /// Uniform in `0..n` (n > 0).
    pub fn below(&mut self, n: usize) -> usize {
        debug_assert!(n > 0);
        (self.next_u64() % (n as u64)) as usize
    }

    /// Uniform in `lo..=hi`.
    pub fn range(&mut self, lo: usize, hi: usize) -> usize {
        lo + self.below(hi - lo + 1)
    }

    pub fn chance(&mut self, num: u32, den: u32) -> bool {
        (self.next_u64() % den as u64) < num as u64
    }

    pub fn pick<'a, T>(&mut self, xs: &'a [T]) -> &'a T {
        &xs[self.below(xs.len())]
    }

    pub fn bytes(&mut self, n: usize) -> Vec<u8> {
        (0..n).map(|_| self.next_u64() as u8).collect()
    }

    pub fn shuffle<T>(&mut self, xs: &mut [T]) {
        for i in (1..xs.len()).rev() {
            let j = self.below(i + 1);
            xs.swap(i, j);
        }
    }

    pub fn fork(&mut self) -> Rng {
        Rng::new(self.next_u64())
    }
}
