#!/bin/bash
# usage: tools/seedkeep2.sh <listfile> <srcroot> <logA dir> <logB dir>  — keep changes verified by seedverifyA.sh (scratch worktree) and seedchecksB.sh (/repo)
# list line: <Cxx> <letter> <crate> <checks...>
while read P X CRATE CHECKS; do
  SRC=$2/$P/$X; DST=/verif/seeded/$P-$X
  mkdir -p "$DST"
  cp "$SRC/patch.diff" "$SRC/demo_test.rs" "$DST/"; cp "$SRC/meta.txt" "$DST/agent_meta.txt"
  cat "$3/$P-$X.log" "$4/$P-$X.log" | grep -v "^WARNING conda" > "$DST/verification.log"
  python3 - "$P" "$X" "$CRATE" "$DST" <<'PY'
import sys,json,re
p,x,crate,dst=sys.argv[1:5]
log=open(dst+'/verification.log',errors='replace').read()
res={}
for m in re.finditer(r'^== (C\d+) exit=(\d+) (\d+) VIOLATION lines',log,re.M):
    res[m.group(1)]={'exit':int(m.group(2)),'violation_lines':int(m.group(3))}
meta={
 'breaks_property':p,'variant':x,
 'origin':'fresh sub-agent given only the property text (plus one-line summaries of earlier ideas to avoid) and a scratch worktree of /repo HEAD',
 'needs_to_manifest':open(dst+'/agent_meta.txt').read()[:4000],
 'demo':{'crate':crate,'place_at':crate+'/tests/seeded_demo.rs','cmd':'cargo test --offline -p %s %s--test seeded_demo'%(crate,'--features async ' if crate=='mpd_protocol' else '')},
 'confirmed_in_scratch_worktree':{
   'demo_passes_without_change': 'demo passes without the change: OK' in log,
   'demo_fails_with_change': 'demo fails with the change: OK' in log,
   'existing_suite_passes_with_change': ('FAILED' not in log) and ('test result: ok. 58 passed' in log) and ('test result: ok. 43 passed' in log),
 },
 'checks_run_with_change_applied_to_repo':res,
 'caught_by':[c for c,r in res.items() if r['exit']==1],
 'what_was_run':'tools/seedverifyA.sh (scratch worktree: demo both ways + unedited suite) and tools/seedchecksB.sh (git -C /repo apply, ./check <id> quick, git -C /repo checkout -- .)',
}
json.dump(meta,open(dst+'/meta.json','w'),indent=1)
print(p,x,'confirmed:',all(meta['confirmed_in_scratch_worktree'].values()),'caught_by:',meta['caught_by'],'missed_by:',[c for c,r in res.items() if r['exit']!=1])
PY
done < "$1"
