#!/bin/bash
# usage: tools/seedtry.sh <seeded id> <checks…>  — apply seeded/<id>/patch.diff to /repo, run the quick checks, revert
cd /verif
id="$1"; shift
if [ -n "$(git -C /repo status --porcelain)" ]; then echo "/repo not clean"; exit 3; fi
if ! git -C /repo apply --3way "$PWD/seeded/$id/patch.diff" >/dev/null 2>&1; then echo "$id PATCH-DOES-NOT-APPLY"; git -C /repo reset -q --hard HEAD; exit 3; fi
res=""
for c in "$@"; do
  out=$(./check $c quick 2>&1); rc=$?
  res="$res $c=$rc($(echo "$out" | grep -c '^VIOLATION'))"
  [ -n "${SHOW:-}" ] && echo "$out" | grep -A1 "^VIOLATION\|INCONCL" | grep -v "^--" | head -4 | cut -c1-400
done
git -C /repo reset -q --hard HEAD
echo "$id$res"
