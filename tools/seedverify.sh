#!/bin/bash
# usage: tools/seedverify.sh <dir with patch.diff demo_test.rs meta.txt> <crate: mpd_client|mpd_protocol> [check ids...]
# 1. in a scratch worktree of /repo HEAD: patch applies, builds, the unedited suite passes, the demo fails
#    with the patch and passes without it;
# 2. applies the patch to /repo, runs the given quick checks, reverts /repo.
set -u
D="$(cd "$1" && pwd)"; CRATE="$2"; shift 2
WT=/tmp/seedverify.$$
git -C /repo worktree add -q "$WT" HEAD || exit 3
cleanup() { git -C /repo worktree remove --force "$WT" 2>/dev/null; rm -rf "$WT"; }
trap cleanup EXIT
export CARGO_TARGET_DIR=/tmp/seedverify-target
FEAT=""; [ "$CRATE" = "mpd_protocol" ] && FEAT="--features async"
[ -f "$D/features.txt" ] && FEAT="--features $(cat $D/features.txt)"
cd "$WT"
mkdir -p $CRATE/tests && cp "$D/demo_test.rs" $CRATE/tests/seeded_demo.rs
echo "--- demo on the unchanged tree (must pass)"
if cargo test --offline -q -p $CRATE $FEAT --test seeded_demo >/tmp/seedverify.log 2>&1; then echo "demo passes without the change: OK"; else echo "DEMO FAILS WITHOUT THE CHANGE"; tail -15 /tmp/seedverify.log; fi
if ! git apply "$D/patch.diff"; then echo "PATCH DOES NOT APPLY"; exit 1; fi
echo "--- demo with the change (must fail)"
if cargo test --offline -q -p $CRATE $FEAT --test seeded_demo >/tmp/seedverify.log 2>&1; then echo "DEMO PASSES WITH THE CHANGE"; else echo "demo fails with the change: OK"; grep -E "panicked|assert" /tmp/seedverify.log | head -3; fi
rm -f $CRATE/tests/seeded_demo.rs
echo "--- existing suite with the change (must pass)"
cargo test --workspace --no-fail-fast --offline 2>&1 | grep -E "^test result|FAILED|^error" | head -8
cd /verif
echo "--- checks with the change applied to /repo"
if [ -n "$(git -C /repo status --porcelain)" ]; then echo "/repo not clean"; exit 3; fi
git -C /repo apply "$D/patch.diff" || exit 1
for id in "$@"; do
  out=$(./check $id quick 2>&1); rc=$?
  echo "== $id exit=$rc $(echo "$out" | grep -c '^VIOLATION') VIOLATION lines"; echo "$out" | grep -A1 "^VIOLATION" | grep -v "^VIOLATION\|^--" | head -2 | cut -c1-260; echo "$out" | grep INCONCLUSIVE | head -2
done
git -C /repo checkout -- . && git -C /repo status --porcelain | head -3
