#!/bin/bash
# usage: tools/seedverifyA.sh <dir with patch.diff demo_test.rs meta.txt> <crate> <out log>   (phase A of seedverify.sh, parallel-safe:
# own scratch worktree + own target dir; demo both ways + unedited suite with the change). Does not touch /repo's working tree.
set -u
D="$(cd "$1" && pwd)"; CRATE="$2"; OUT="$3"
WT=/tmp/seedverifyA.$$
git -C /repo worktree add -q --detach "$WT" HEAD || exit 3
cleanup() { git -C /repo worktree remove --force "$WT" 2>/dev/null; rm -rf "$WT" /tmp/seedverifyA-target.$$; }
trap cleanup EXIT
export CARGO_TARGET_DIR=/tmp/seedverifyA-target.$$
FEAT=""; [ "$CRATE" = "mpd_protocol" ] && FEAT="--features async"
[ -f "$D/features.txt" ] && FEAT="--features $(cat $D/features.txt)"
cd "$WT"
{
mkdir -p $CRATE/tests && cp "$D/demo_test.rs" $CRATE/tests/seeded_demo.rs
echo "--- demo on the unchanged tree (must pass)"
if cargo test --offline -q -p $CRATE $FEAT --test seeded_demo >$OUT.tmp 2>&1; then echo "demo passes without the change: OK"; else echo "DEMO FAILS WITHOUT THE CHANGE"; tail -15 $OUT.tmp; fi
if ! git apply "$D/patch.diff"; then echo "PATCH DOES NOT APPLY"; exit 1; fi
echo "--- demo with the change (must fail)"
if cargo test --offline -q -p $CRATE $FEAT --test seeded_demo >$OUT.tmp 2>&1; then echo "DEMO PASSES WITH THE CHANGE"; else echo "demo fails with the change: OK"; grep -E "panicked|assert" $OUT.tmp | head -3; fi
rm -f $CRATE/tests/seeded_demo.rs
echo "--- existing suite with the change (must pass)"
cargo test --workspace --no-fail-fast --offline 2>&1 | grep -E "^test result|FAILED|^error" | head -8
} > "$OUT" 2>&1
rm -f $OUT.tmp
