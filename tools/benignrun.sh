#!/bin/bash
# usage: tools/benignrun.sh <patch.diff> [check ids…]   — applies a change that is believed to keep every property to /repo,
# runs the quick tier of the given checks (default: all 20), reverts /repo. Any exit != 0 is a suspected false alarm.
set -u
P="$(readlink -f "$1")"; shift
cd /verif
if [ -n "$(git -C /repo status --porcelain)" ]; then echo "/repo not clean"; exit 3; fi
git -C /repo apply "$P" || { echo "PATCH DOES NOT APPLY"; exit 3; }
ids="$*"; [ -z "$ids" ] && ids="C01 C02 C03 C04 C05 C06 C07 C08 C09 C10 C11 C12 C13 C14 C15 C16 C17 C18 C19 C20"
res=""
for c in $ids; do
  out=$(./check $c quick 2>&1); rc=$?
  if [ $rc -ne 0 ]; then res="$res $c=$rc"; echo "== $c exit=$rc"; echo "$out" | grep -A1 "^VIOLATION\|INCONCLUSIVE" | grep -v "^--" | head -6 | cut -c1-400; fi
done
git -C /repo checkout -- . ; git -C /repo status --porcelain | head -3
echo "RESULT $(basename $(dirname $P))/$(basename $P):${res:- all silent}"
