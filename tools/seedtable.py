#!/usr/bin/env python3
"""Regenerates the seeded-change table in DESIGN.md from seeded/*/meta.json."""
import json, glob, os, re
ROOT = os.path.dirname(os.path.dirname(os.path.abspath(__file__)))
rows = []
for d in sorted(glob.glob(os.path.join(ROOT, 'seeded', '*'))):
    mp = os.path.join(d, 'meta.json')
    if not os.path.exists(mp):
        continue
    m = json.load(open(mp))
    name = os.path.basename(d)
    summary = m.get('summary') or ''
    if not summary:
        # first informative line of the agent's description
        for line in m.get('needs_to_manifest', '').splitlines():
            line = line.strip(' -*#()0123456789.')
            if len(line) > 30:
                summary = line
                break
    summary = summary.replace('|', '/')[:170]
    conf = m.get('confirmed_in_scratch_worktree', {})
    ok = all(conf.values()) if conf else False
    caught = ', '.join(m.get('caught_by', [])) or '**none**'
    missed = ', '.join(c for c, r in m.get('checks_run_with_change_applied_to_repo', {}).items() if r.get('exit') != 1)
    rows.append(f"| `{name}` | {m.get('breaks_property')} | {summary} | {'yes' if ok else 'NO'} | {caught} | {missed or '-'} |")
table = "<!-- seeded-table-begin -->\n| seeded change | property | what it does (from the agent's description) | confirmed | caught by (quick) | also run, silent |\n|---|---|---|---|---|---|\n" + "\n".join(rows) + "\n<!-- seeded-table-end -->"
p = os.path.join(ROOT, 'DESIGN.md')
s = open(p).read()
if 'SEEDED_TABLE_PLACEHOLDER' in s:
    s = s.replace('SEEDED_TABLE_PLACEHOLDER', table)
else:
    s = re.sub(r'<!-- seeded-table-begin -->.*?<!-- seeded-table-end -->', lambda _: table, s, flags=re.S)
open(p, 'w').write(s)
print(len(rows), 'rows')
