#!/bin/bash
# usage: tools/benignsome.sh <list file: "<benign id or patch path> <checks...>" per line> — applies each patch to /repo (3-way),
# runs the listed quick checks, reverts; prints one line per patch (every exit code must be 0: these changes keep every property)
cd /verif
while read id checks; do
  [ -z "$id" ] && continue
  p="$id"; [ -f "$p" ] || p="/verif/benign/$id/patch.diff"
  if [ -n "$(git -C /repo status --porcelain)" ]; then echo "/repo not clean"; exit 3; fi
  if ! git -C /repo apply --3way "$p" >/dev/null 2>&1; then echo "$id PATCH-DOES-NOT-APPLY"; git -C /repo reset -q --hard HEAD; continue; fi
  res=""
  for c in $checks; do
    out=$(./check $c quick 2>&1); rc=$?
    res="$res $c=$rc"
    [ $rc -ne 0 ] && echo "$out" | grep -A1 "^VIOLATION\|INCONCL" | grep -v "^--" | head -4 | cut -c1-400
  done
  git -C /repo reset -q --hard HEAD
  echo "$id$res"
done < "$1"
