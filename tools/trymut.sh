#!/bin/bash
# usage: tools/trymut.sh <file-in-repo> '<python expr old>' '<new>' -- check ids...
# Applies a textual replacement to /repo (must match exactly once), runs the quick checks, reverts.
set -u
F="$1"; OLD="$2"; NEW="$3"; shift 3; [ "$1" = "--" ] && shift
python3 - "$F" "$OLD" "$NEW" <<'PY' || exit 3
import sys
f,old,new=sys.argv[1:4]
p='/repo/'+f
s=open(p).read()
n=s.count(old)
if n!=1:
    print("replacement matches",n,"times"); sys.exit(1)
open(p,'w').write(s.replace(old,new))
PY
for id in "$@"; do
  out=$(cd /verif && VERIF_ROOT_OVERRIDE= ./check $id quick 2>&1); rc=$?
  echo "== $id exit=$rc"; echo "$out" | grep -E "VIOLATION|INCONCLUSIVE|KNOWN|property=" | head -4; echo "$out" | grep -A1 VIOLATION | grep -v VIOLATION | head -2
done
git -C /repo checkout -- .
