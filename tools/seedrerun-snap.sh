#!/bin/bash
# seedrerun against a snapshot of /verif (checks) and a scratch worktree of /repo, so that /repo and /verif stay free;
# results are recorded in /verif/seeded/<id>/meta.json exactly as tools/seedrerun.sh does.
ROOT=${SNAP_ROOT:-/tmp/verif-snap}; REPO=${SNAP_REPO:-/tmp/bnrepo}; ONLY=${ONLY:-.}
cd $ROOT
head=$(git -C $REPO rev-parse --short HEAD)
for d in /verif/seeded/*/; do
  name=$(basename $d)
  [ -f "$d/meta.json" ] || continue
  echo "$name" | grep -qE -- "$ONLY" || continue
  prop=${name%%-*}
  checks=$(python3 -c "
import json;m=json.load(open('$d/meta.json'));print(' '.join(sorted(set(['$prop']+m.get('caught_by',[])+list(m.get('checks_run_with_change_applied_to_repo',{}).keys())))))")
  if ! git -C $REPO apply --3way "$d/patch.diff" >/dev/null 2>&1; then echo "$name PATCH-DOES-NOT-APPLY"; git -C $REPO reset -q --hard HEAD; continue; fi
  res=""
  for c in $checks; do
    ./check $c quick >/tmp/seedrerun-snap.out 2>&1; rc=$?
    res="$res $c=$rc"
  done
  git -C $REPO reset -q --hard HEAD
  python3 - "$d/meta.json" "$head" "$prop" $res <<'PY'
import sys,json
p,head,prop=sys.argv[1:4]
res=dict(x.split('=') for x in sys.argv[4:])
m=json.load(open(p))
m['rerun']={'repo_head':head,'exit_codes':{k:int(v) for k,v in res.items()},'note':'run from a snapshot of the committed checks against a scratch worktree of /repo HEAD'}
caught=[k for k,v in res.items() if v=='1']
caught.sort(key=lambda k:(k!=prop,k))
m['caught_by']=caught
json.dump(m,open(p,'w'),indent=1)
PY
  echo "$name$res"
done
