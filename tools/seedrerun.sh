#!/bin/bash
# Re-runs every kept seeded change against the current checks: applies seeded/<id>/patch.diff to /repo, runs the quick
# tier of the property the change targets plus the checks that caught it before, reverts. Prints one line per change.
cd /verif
if [ -n "$(git -C /repo status --porcelain)" ]; then echo "/repo not clean"; exit 3; fi
for d in seeded/*/; do
  name=$(basename $d)
  prop=${name%%-*}
  checks=$(python3 -c "
import json;m=json.load(open('$d/meta.json'));print(' '.join(sorted(set(['$prop']+m.get('caught_by',[])))))")
  if ! git -C /repo apply --3way "$PWD/$d/patch.diff" >/dev/null 2>&1; then echo "$name PATCH-DOES-NOT-APPLY"; git -C /repo checkout -- . ; git -C /repo reset -q; continue; fi
  res=""
  for c in $checks; do
    ./check $c quick >/tmp/seedrerun.out 2>&1; rc=$?
    res="$res $c=$rc"
  done
  git -C /repo reset -q; git -C /repo checkout -- .
  echo "$name$res"
done
