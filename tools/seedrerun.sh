#!/bin/bash
# Re-runs every kept seeded change against the current checks: applies seeded/<id>/patch.diff to /repo (3-way, the
# patches were made against earlier heads), runs the quick tier of the property the change targets plus every check that
# caught it before (or the ids given as extra arguments), reverts. Records the outcome in seeded/<id>/meta.json
# ("rerun", and caught_by := checks that exit 1 now) and prints one line per change.
cd /verif
if [ -n "$(git -C /repo status --porcelain)" ]; then echo "/repo not clean"; exit 3; fi
head=$(git -C /repo rev-parse --short HEAD)
only="${ONLY:-}"
for d in seeded/*/; do
  name=$(basename $d)
  [ -f "$d/meta.json" ] || continue
  [ -n "$only" ] && ! echo "$name" | grep -qE -- "$only" && continue
  prop=${name%%-*}
  checks=$(python3 -c "
import json;m=json.load(open('$d/meta.json'));print(' '.join(sorted(set(['$prop']+m.get('caught_by',[])+list(m.get('checks_run_with_change_applied_to_repo',{}).keys())))))")
  if ! git -C /repo apply --3way "$PWD/$d/patch.diff" >/dev/null 2>&1; then echo "$name PATCH-DOES-NOT-APPLY"; git -C /repo reset -q --hard HEAD; continue; fi
  res=""
  for c in $checks "$@"; do
    ./check $c quick >/tmp/seedrerun.out 2>&1; rc=$?
    res="$res $c=$rc"
  done
  git -C /repo reset -q --hard HEAD
  python3 - "$d/meta.json" "$head" "$prop" $res <<'PY'
import sys,json
p,head,prop=sys.argv[1:4]
res=dict(x.split('=') for x in sys.argv[4:])
m=json.load(open(p))
m['rerun']={'repo_head':head,'exit_codes':{k:int(v) for k,v in res.items()}}
caught=[k for k,v in res.items() if v=='1']
caught.sort(key=lambda k:(k!=prop,k))
m['caught_by']=caught
json.dump(m,open(p,'w'),indent=1)
PY
  echo "$name$res"
done
