#!/usr/bin/env python3
"""Generates /verif/MANIFEST.json from the table below. Usage: tools/mkmanifest.py [ids built...]
The list of built checks is kept in tools/built.txt (one id per line)."""
import json, os, sys
ROOT = os.path.dirname(os.path.dirname(os.path.abspath(__file__)))
built = [l.strip() for l in open(os.path.join(ROOT, "tools/built.txt")) if l.strip()]
hook_commits = [l.strip() for l in open(os.path.join(ROOT, "tools/hook_commits.txt")) if l.strip()]

T = {
 "C01": ("exploration", "session", "history checker over boundary event log vs. simulated MPD server (reply = pure function of request id)",
         "Runs the real tokio client against a simulated MPD server on a paused-clock current-thread runtime with seeded select!; every request carries a unique id and the reply is recomputed from it; checks own-reply, per-caller order, partial list failure, undisturbed others under cancellation; directed scenarios, bounded-exhaustive timing grids, random ones (back-pressure, dropped / unpolled events receiver, stalled shutdown, password connects), a server that rejects idle, a flood of 129-1000 simultaneous requests, byte-identical `status` requests from several callers at once (the server numbers its replies: no two calls may share one), servers announcing versions of many shapes (protocol_version() must be verbatim), real-thread stress in the thorough tier. Every error value handed to a caller is printed and its source chain followed. Every third case runs under a TRACE tracing subscriber. Holds on the explored schedules only.",
         "Simulated transport/server (harness) model MPD's idle/noidle/command-list semantics; schedules are those of a cooperative single-thread executor plus real-thread stress in the thorough tier."),
 "C02": ("exploration", "wire", "metamorphic differential monitor (segmentation independence) + receive-buffer invariant hook",
         "Every generated stream is decoded whole (reference) and under byte-wise, random k-way and (exhaustive or edge-windowed) 2-way splits on the blocking and async connections; results must be identical; 'exact-fill' streams (complete responses ending exactly where the receive buffer is full, then a silent peer) and responses of thousands of very short lines delivered in one read must come out completely, also when read in one piece on the async connection; buffer bookkeeping invariants asserted at the verif-hooks probes. Sampled streams, exhaustive split points for short streams.",
         "Read boundary forced after the greeting line; whole-stream blocking run is the reference."),
 "C03": ("exploration", "wire", "reference-encoder round-trip monitor",
         "Random abstract sessions are serialised by an independent reference encoder and must be decoded by the real connections into exactly the same frames/fields/binary/error, followed by Ok(None).",
         "Reference encoder written from the MPD protocol document; normalisation at documented non-injective points."),
 "C04": ("exploration", "session", "history checker: event sequence == concatenation of changed: lines delivered",
         "Sessions with dense notification schedules, split idle replies and racing requests; the sequence from ConnectionEvents::next must equal the changed lines the simulated server wrote in idle/noidle replies; at the quiescent end of a fault-free session everything reported must have arrived; sessions ending in a transport fault must still deliver every change of a reply the client completely read; in sessions without callers ONE read failing with ErrorKind::Interrupted inside chopped idle replies: the client may stop or carry on, but must not deliver later changes of a reply whose earlier lines it lost.",
         "Simulated server; set and list semantics for pending changes both generated."),
 "C05": ("exploration", "session", "online protocol-state monitor in the simulated server + offline outstanding-request checker",
         "Every line the client writes is judged against what had been completely delivered to it (<=1 outstanding, only noidle during idle, first line idle/password, bounded re-idle in virtual time).",
         "Re-idle delay D measured at the boundary by a calibration session (not read from the code); bounded-progress restatement of liveness (D + 1 s virtual)."),
 "C06": ("exploration", "cmd", "reference-model monitor: port of MPD's request tokenizer applied to the bytes written by Connection::send",
         "Exhaustive over short strings of one representative per character class, plus random long ones, in all argument positions; the tokenizer port must give back name and arguments byte for byte. Known-finding classes are matched by input predicate and failure mode.",
         "Port of MPD util/Tokenizer.cxx + client line handling (trusted base, self-tested against the protocol document's examples); MPD's 16-argument and 4 KiB limits not modelled."),
 "C07": ("exploration", "cmd", "invariant monitor on wire bytes (line count, rejection predicate, rollback equality)",
         "Exhaustive over all 1- and 2-byte ASCII names, all command_list spellings, LF at every position for all Argument types incl. user-defined renderers, random accept/reject histories with clone/==/Hash comparison.",
         "Renderers that delete bytes from the buffer are outside 'emit'."),
 "C08": ("fault_enumeration", "session", "fault-injection history checker (every byte position / write index / event instant of base scripts)",
         "Each base script is first run fault-free, then re-run with EOF, persistent read error (six error kinds), malformed line, malformed bytes without line end from a peer that then stays silent, persistent write error, server-side close or handle drop injected at every position; every call must resolve before a far virtual deadline, closure must be reported as the property says (incl. after an in-flight caller gave up, with an unpolled events receiver, with a transport whose shutdown never completes).",
         "Faults are those of the simulated transport; hang = pending at a virtual-time deadline no component can legitimately wait for."),
 "C09": ("exploration", "wire", "panic/abort + read-budget monitor and differential check against a whole-buffer reference decoder",
         "Random, dictionary and mutated streams under three segmentations on both flavours in child processes; no panic/abort, reads bounded, every complete malformed line -> InvalidMessage, no data that is not in the input; receive() is called twice more after the terminal item (no panic, no reading past the end); every third case under a TRACE tracing subscriber.",
         "Reference decoder (hand-written byte loops) is the trusted base; one documented abstention (binary length not representable)."),
 "C10": ("fault_enumeration", "wire", "cut-point enumeration monitor against encoder-recorded response boundaries",
         "Every cut offset of every generated well-formed stream and every prefix of valid greetings, three segmentations, both flavours; big streams (buffer-edge and 66 KB - 2.3 MB responses) with sampled cuts.",
         "Boundaries recorded by the reference encoder."),
 "C11": ("exploration", "cmd", "reference-model monitor: ports of MPD's tokenizer and filter-expression parser vs. mirror tree",
         "Random trees (depth/width <= 6) and exhaustive short values over the special alphabet, through find/count/list and eight longer builder paths; parsed expression must equal the mirror tree modulo AND flattening; filters built from intermediates that were rendered / cloned before must denote the same; a filter with a line feed in a value must be refused or sent faithfully by all eleven paths, never written altered or left out.",
         "Port of MPD song/Filter.cxx ParseExpression (trusted base)."),
 "C12": ("exploration", "typed", "panic monitor (catch_unwind in child processes) over every command x frame source, both feature builds",
         "Every predefined command and typed list shape is fed its own, foreign, mutated and edge-valued frames produced by the real parser; result and all accessors must return without panic; directed grid (every field x every edge value, once more with another key absent), requests with parameters at the top of their domain, long multi-byte values whose usual cut-off lengths fall inside a character, 20-40 thousand-line replies on a 256 KiB stack.",
         "Frames can only come from the real parser, so keys outside its alphabet cannot be produced."),
 "C13": ("exploration", "cmd+session", "wire-grammar monitor for list framing + token-pairing monitor through the client",
         "Lists of 1-50 raw commands (built through new/command/add and Extend from exact-size, filter/flat_map/from_fn, chained and empty iterators; one case in four after failed writes on another connection of the same thread) compared byte-wise with individually rendered lines; lists of 2-33 MiB are still one block; typed tuples of every arity 1-8 and vectors executed against the simulated server whose replies carry a token of the command's own argument.",
         "Simulated server."),
 "C14": ("exploration", "typed+session", "reference-decode monitor over abstract song listings (captured replies and through the real client)",
         "Random listings with interleaved directory/playlist entries, repeated tags, Time/duration in either order, through all six listing commands, both feature builds; every 8th case through the real client against the simulated server, after a failed multi-read command list and after the re-idle window.",
         "Scalar attributes not repeated within a song; URLs non-empty."),
 "C15": ("exploration", "cmd", "per-command expectation table (from the MPD protocol reference) applied after tokenisation",
         "Every constructor path on an exhaustive boundary grid of integers/ranges/durations/enums; arguments compared semantically (range sets, ms rounding, clamping); strings with a line feed through every string parameter must be refused or sent faithfully.",
         "Table typed by hand from the protocol reference (trusted base)."),
 "C16": ("exploration", "typed", "schema-driven reference monitor over abstract replies",
         "All 2^11 optional-field subsets of status, permutations, boundary numbers, enum spellings, stickers with '=', grouped count/list; domain violations must yield errors; every provided iterator method (nth, nth_back, last, count, len, size_hint, skip, step_by, rev, ...) of the list iterators is compared with plain iteration.",
         "Schemas typed from the protocol reference."),
 "C17": ("exploration", "session", "history checker: reassembled bytes, MIME, request offsets, fallback rules",
         "Picture sizes x chunk limits x sources x MIME x error codes with concurrent callers and notifications through the simulated server, which announces old and new protocol versions.",
         "Well-behaved server (no 0-byte chunk before the end, constant size)."),
 "C18": ("exploration", "wire+session", "greeting reference + ordering checker on the session log",
         "Greeting strings of every shape (incl. dotted numbers with leading zeros) under all 2-way splits on both flavours and all connect entry points; more bytes arriving in the same read as the greeting must not change the verdict; password verdicts OK/ACK/close/garbage with delayed, chopped replies.",
         "Greeting grammar from the protocol document."),
 "C19": ("exploration", "wire", "lock-step Vec-based model of Frame/Response",
         "Random operation histories (find/get/take_binary/iteration from both ends, the provided iterator methods nth/nth_back/skip/step_by/last/count/rev/fold on all four iterator types) compared step by step with the model; Debug output of responses, frames and errors must return.",
         "Frames bounded at 40 fields."),
 "C20": ("exploration", "cmd+session", "exhaustive pair monitor over name tables",
         "All pairs of named/catch-all tags and subsystems (Eq, Hash with three hashers, Ord, map lookup), all short candidate tag strings, EVERY Unicode scalar value inside a name, names of every length up to 70 and up to 5000 bytes, names tagging tools use, subsystem names through a real session.",
         "Name tables from MPD tag/Names.c and IdleFlags.cxx."),
}

checks = []
na = []
for pid in sorted(T):
    level, engine, technique, text, note = T[pid]
    if pid in built:
        checks.append({
            "property_id": pid,
            "quick_cmd": f"./check {pid} quick",
            "thorough_cmd": f"./check {pid} thorough",
            "evidence_file": f"evidence/{pid}.json",
            "replay_cmd_template": f"./check {pid} --replay {{path}}",
            "engine": engine,
            "level_claimed": {"category": level, "text": text, "design_ref": f"DESIGN.md section 5, {pid}"},
            "level_note": note,
            "technique": "runtime monitoring: " + technique,
        })
    else:
        na.append({"property_id": pid, "reason": "check not built yet (work in progress in this session; planned technique: runtime monitoring, " + technique + ")"})

m = {
 "version": 1,
 "setup_cmd": "cd harness && CARGO_NET_OFFLINE=true cargo build --release --offline --target-dir target && CARGO_NET_OFFLINE=true cargo build --release --offline --target-dir target-chrono --features chrono",
 "hooks": {
   "guard": "verif-hooks (cargo feature on mpd_protocol and mpd_client, off by default)",
   "enable": "harness/Cargo.toml depends on /repo/mpd_protocol and /repo/mpd_client by path with features = [\"verif-hooks\"]; every check runs cargo build first",
   "baseline_off_cmd": "cd /repo && cargo test --workspace --no-fail-fast --offline",
   "source_commits": hook_commits,
   "add_only": True,
 },
 "engines": [
   {"name": "wire", "path": "harness/src/sim/wirerun.rs", "serves_properties": ["C02", "C03", "C09", "C10", "C18", "C19"], "kind_free_text": "real Connection/AsyncConnection over dictated-read transports; reference encoder/decoder"},
   {"name": "cmd", "path": "harness/src/refmodel/tokenizer.rs", "serves_properties": ["C06", "C07", "C11", "C13", "C15", "C20"], "kind_free_text": "bytes written by Connection::send through ports of MPD's tokenizer and filter parser"},
   {"name": "typed", "path": "harness/src/props/typed.rs", "serves_properties": ["C12", "C14", "C16"], "kind_free_text": "frames produced by the real parser fed to typed conversions; default and chrono builds"},
   {"name": "session", "path": "harness/src/sim/session.rs", "serves_properties": ["C01", "C04", "C05", "C08", "C13", "C14", "C17", "C18", "C20"], "kind_free_text": "real tokio client vs simulated MPD server on a paused-clock runtime with seeded select!, boundary event log, offline history checkers"},
 ],
 "checks": checks,
 "not_applicable": na,
 "notes": "All checks are runtime monitors over executions of the real code; exit 0 held / 1 VIOLATION / 2 INCONCLUSIVE. VERIF_SEED and VERIF_TIER honoured. Known findings: KNOWN_FINDINGS.txt. Seeded breaking changes (229, with which check reports which): seeded/ and DESIGN.md 11.5; property-preserving changes used to hunt false alarms (88): benign/ and DESIGN.md 11.6.",
}
json.dump(m, open(os.path.join(ROOT, "MANIFEST.json"), "w"), indent=1)
print("MANIFEST.json:", len(checks), "checks,", len(na), "not applicable")
