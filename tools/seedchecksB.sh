#!/bin/bash
# usage: tools/seedchecksB.sh <patch.diff> <checks...>   (phase B of seedverify.sh: apply to /repo, run the quick checks, revert)
set -u
P="$1"; shift
cd /verif
echo "--- checks with the change applied to /repo"
if [ -n "$(git -C /repo status --porcelain)" ]; then echo "/repo not clean"; exit 3; fi
git -C /repo apply "$P" || exit 1
for id in "$@"; do
  out=$(./check $id quick 2>&1); rc=$?
  echo "== $id exit=$rc $(echo "$out" | grep -c '^VIOLATION') VIOLATION lines"; echo "$out" | grep -A1 "^VIOLATION" | grep -v "^VIOLATION\|^--" | head -2 | cut -c1-260; echo "$out" | grep INCONCLUSIVE | head -2
done
git -C /repo checkout -- . && git -C /repo status --porcelain | head -3
